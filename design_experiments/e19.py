import os
os.environ["NUMBA_DISABLE_JIT"]="1"
import numpy as np, math, sys
exec(open('e2.py').read().split("rng=np.random.default_rng(1)")[0])
import fast_ticc; print(fast_ticc.__file__)
rng=np.random.default_rng(3); n=0; notconv=0; kktbad=0
for trial in range(40):
    N=int(rng.integers(2,4)); W=int(rng.integers(2,5)); nn=N*W
    Q,_=np.linalg.qr(rng.normal(size=(nn,nn))); ev=rng.uniform(0.25,4,size=nn); S=(Q*ev)@Q.T; S=(S+S.T)/2
    lam=float(rng.choice([0.01,0.11,0.5,1.0]))
    state.clear(); r=admm_optimize_theta(S,lam,W,N); last=state['last']; n+=1
    if not last[0][0]: notconv+=1; continue
    w,t=kkt(r.theta,S,lam,N,W,last[5])
    if w>1.5 or t>1.5: kktbad+=1
print('cases',n,'did not stop within budget',notconv,'KKT/Toeplitz certificate failed',kktbad)
