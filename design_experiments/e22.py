import os, time
os.environ["NUMBA_DISABLE_JIT"]="1"
import numpy as np
from fast_ticc import matrix_compression as mc
from fast_ticc.admm import unique_values as uv
t0=time.time(); bad=0
for n in range(1,151):
    m=n*(n+1)//2
    assert mc._full_matrix_size(m)==n
    v=np.arange(m,dtype=float)
    M=mc.reinflate_matrix(v)
    if not (M==M.T).all() or not np.array_equal(mc.compress_matrix(M),v): bad+=1
    # index rank
    iu=np.triu_indices(n)
    if n<=60 or n%10==0:
        for rank,(r,c) in enumerate(zip(*iu)):
            if uv._compressed_index(int(r),int(c),n)!=rank: bad+=1; break
    A=np.random.rand(n,n); A=A+A.T
    if not np.array_equal(mc.reinflate_matrix(mc.compress_matrix(A)),A): bad+=1
print('compression n<=150 bad',bad,'%.1fs'%(time.time()-t0)); t0=time.time()
npos=0
for N in range(1,11):
    for W in range(1,15):
        n=N*W; seen=np.zeros(n*(n+1)//2,dtype=int)
        for b in range(W):
            for i in range(N):
                for j in range(i if b==0 else 0, N):
                    idx=uv.locations_compressed(b,i,j,N,W); rows,cols=uv.locations_index_slices(b,i,j,N,W)
                    if len(idx)!=W-b: bad+=1
                    for k,(r,c) in enumerate(zip(rows,cols)):
                        if not (r<=c and c//N-r//N==b and r%N==i and c%N==j): bad+=1
                        if uv._compressed_index(r,c,n)!=idx[k]: bad+=1
                    seen[idx]+=1; npos+=len(idx)
        if not (seen==1).all(): bad+=1; print('partition fails',N,W)
print('classes (N<=10,W<=14) positions',npos,'bad',bad,'%.1fs'%(time.time()-t0))
