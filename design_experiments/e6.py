import os, sys
os.environ["NUMBA_DISABLE_JIT"]="1"
mp_on = len(sys.argv)>1 and sys.argv[1]=='mp'
if mp_on: os.environ['CUPCAKE_ENABLE_MULTIPROCESSING']='1'
import numpy as np, random, io, contextlib, warnings, time, gc, multiprocessing, functools, subprocess
warnings.simplefilter('ignore')
from gen import regime_data
import fast_ticc, fast_ticc.admm, fast_ticc.admm.front_end as afe
orig=afe.admm_optimize_theta
counter_file='/tmp/x/cnt.txt'
class Boom(ValueError): pass
FAIL_AT=[None]
@functools.wraps(orig)
def wrapper(*a,**k):
    # count calls across processes via file append
    with open(counter_file,'a') as f: f.write('x')
    n=os.path.getsize(counter_file)
    if FAIL_AT[0] is not None and n==FAIL_AT[0]:
        raise Boom(f"injected at call {n}")
    return orig(*a,**k)
afe.admm_optimize_theta=wrapper; fast_ticc.admm.admm_optimize_theta=wrapper
def children():
    out=subprocess.run(['pgrep','-P',str(os.getpid())],capture_output=True,text=True).stdout.split()
    return [p for p in out]
rng=np.random.default_rng(3)
d=regime_data(rng,80,2,n_reg=2,seg=15)
def run(fail_at):
    open(counter_file,'w').close(); FAIL_AT[0]=fail_at
    np.random.seed(0); random.seed(0)
    with contextlib.redirect_stdout(io.StringIO()):
        return fast_ticc.ticc_labels(d, window_size=2, num_clusters=3, label_switching_cost=5, min_cluster_size=3, num_processors=3)
r0=run(None); ncalls=os.path.getsize(counter_file); print('clean calls',ncalls,'children after clean',children())
for fa in [1,2,3,4,ncalls]:
    t0=time.time()
    try:
        run(fa); print('fail_at',fa,'RETURNED?!')
    except Exception as e:
        print('fail_at',fa,'raised',type(e).__name__,e,'%.2fs'%(time.time()-t0), 'children now',len(children()))
    del_e=None
    gc.collect(); time.sleep(0.3)
    print('   children after gc',len(children()), multiprocessing.active_children())
r1=run(None)
print('post-failure clean run identical labels:', r1.point_labels==r0.point_labels, 'cost eq', r1.label_assignment_cost==r0.label_assignment_cost)
