import sys, collections
import numpy as np, random, io, contextlib
from proto import *
from gen import regime_data
rng=np.random.default_rng(1); agg=collections.Counter()
for trial in range(40):
    N=int(rng.integers(1,4)); W=int(rng.integers(1,5)); K=int(rng.integers(2,5)); ns=int(rng.integers(1,7))
    series=[regime_data(rng,int(rng.integers(W,W+50)),N,n_reg=3,seg=10) for _ in range(ns)]
    beta=float(rng.choice([0,1,5,50]))
    TRACE.clear(); LAB.clear(); FINAL.clear()
    np.random.seed(trial); random.seed(trial)
    try:
        with contextlib.redirect_stdout(io.StringIO()):
            r=fast_ticc.ticc_joint_labels(iter(series),window_size=W,num_clusters=K,label_switching_cost=beta,min_cluster_size=2)
    except Exception as e:
        agg['exc:'+type(e).__name__]+=1; continue
    agg['completed']+=1
    fr=(W-1)//2; bk=W-1-fr
    ok=len(r.point_labels)==ns and all(len(l)==len(s) and all(x==-1 for x in l[:fr]) and all(x==-1 for x in l[len(l)-bk:]) and all(0<=x<K for x in l[fr:len(l)-bk]) for l,s in zip(r.point_labels,series))
    if not ok: agg['C04 bad']+=1
    C,b,p,c=LAB[-1]
    flat=[x for l in r.point_labels for x in l if x!=-1]
    if flat!=p: agg['flat mismatch']+=1
    sizes=[len(s)-W+1 for s in series]; ends=np.cumsum(sizes)[:-1]
    bvec=np.full(len(flat),beta); bvec[ends-1]=0
    opt_within=viterbi(C,bvec); pc=path_cost(C,bvec,flat)
    if pc>opt_within+1e-9*(abs(opt_within)+1): agg['C07 not optimal for within-only pricing']+=1
    if not np.isclose(pc,r.label_assignment_cost,rtol=1e-10): agg['C07 cost includes boundary']+=1
    if np.ndim(b)==0: agg['scalar beta reached labelling']+=1
print(dict(agg))
