import numpy as np
def regime_data(rng, T, N, n_reg=2, seg=30, scale=1.0):
    """piecewise VAR-ish data with n_reg regimes"""
    mixes = [rng.normal(size=(N, N)) for _ in range(n_reg)]
    offs = [rng.normal(size=N) * 3 for _ in range(n_reg)]
    out = np.zeros((T, N)); t = 0; r = 0
    while t < T:
        L = min(seg + int(rng.integers(0, seg)), T - t)
        z = rng.normal(size=(L, N))
        out[t:t+L] = z @ mixes[r] + offs[r]
        t += L; r = (r + 1) % n_reg
    return out * scale
