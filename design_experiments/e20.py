"""C13 alias-monitor prototype: random histories over state ops, all live states re-checked after every step"""
import os, sys
os.environ["NUMBA_DISABLE_JIT"]="1"
import numpy as np, random, copy, warnings
warnings.simplefilter('ignore')
from fast_ticc.containers import model_state as ms, arguments
from fast_ticc import cluster_maintenance as cm
MUT=sys.argv[1] if len(sys.argv)>1 else ''
if MUT=='shallow_shares_list':
    def sc(self): return ms.ModelState(arguments=self.arguments,clusters=self.clusters,label_assignment_cost=self.label_assignment_cost,point_labels=self._point_labels,point_log_likelihood=self.point_log_likelihood,stacked_training_data=self.stacked_training_data)
    ms.ModelState.shallow_copy=sc
if MUT=='repop_no_deepcopy':
    src=open(cm.__file__).read().replace("    new_model.clusters = [cluster.deep_copy() for cluster in model.clusters]\n","")
    exec(compile(src,cm.__file__,'exec'),cm.__dict__)
def snap(st):
    return dict(labels=None if st._point_labels is None else list(st._point_labels),
                members=[list(c._member_points) for c in st.clusters],
                arrays=[[None if getattr(c,a) is None else np.array(getattr(c,a),copy=True) for a in ('stacked_data_mean','empirical_covariance','train_inverse','computed_covariance')] for c in st.clusters],
                K=len(st.clusters))
def same(a,b):
    if a['labels']!=b['labels'] or a['members']!=b['members'] or a['K']!=b['K']: return False
    for x,y in zip(a['arrays'],b['arrays']):
        for p,q in zip(x,y):
            if (p is None)!=(q is None): return False
            if p is not None:
                if p.dtype==object or q.dtype==object:
                    if not (p.dtype==q.dtype and p.shape==q.shape and bool(np.all(p==q))): return False
                elif not np.array_equal(p,q,equal_nan=True): return False
    return True
def inv_ok(st):
    labs=st._point_labels
    if labs is None: return all(len(c._member_points)==0 for c in st.clusters)
    return len(st.clusters)==st.arguments.num_clusters and all(c._member_points==[i for i,l in enumerate(labs) if l==k] for k,c in enumerate(st.clusters))
rng=random.Random(int(sys.argv[2]) if len(sys.argv)>2 else 0)
viol=0; steps=0
for hist in range(300):
    K=rng.randint(2,4); T=rng.randint(6,30); m=rng.randint(1,3)
    args=arguments.UserArguments(0.1,5,1.0,m,0,K,1,1,bool(rng.getrandbits(1)))
    data=np.random.default_rng(hist).normal(size=(T,2))
    st=ms.ModelState.empty_model(args,data); st.point_labels=[rng.randrange(K) for _ in range(T)]
    for c in st.clusters: c.computed_covariance=np.eye(2)*rng.random()
    live=[(st,snap(st))]
    for step in range(rng.randint(3,20)):
        src,_=rng.choice(live); op=rng.choice(['assign','assign_same','shallow','shallow_assign','deep','deep_mutate','repop','stats'])
        try:
            if op=='assign':
                ids=set(id(c) for c in src.clusters)
                src.point_labels=[rng.randrange(K) for _ in range(T)]
                # documented sharing: states holding the same cluster objects see the new membership (their labels must not change)
                new=[]
                for s_,sn in live:
                    if s_ is src: new.append((s_,snap(s_)))
                    elif ids & set(id(c) for c in s_.clusters):
                        ns=snap(s_); assert ns['labels']==sn['labels']; new.append((s_,ns))
                    else: new.append((s_,sn))
                live=new
            elif op=='assign_same': src.point_labels=list(src.point_labels)
            elif op=='shallow': live.append((lambda n:(n,snap(n)))(src.shallow_copy()))
            elif op=='shallow_assign':
                n=src.shallow_copy(); n.clusters=[c.deep_copy() for c in n.clusters]; n.point_labels=[rng.randrange(K) for _ in range(T)]; live.append((n,snap(n)))
            elif op=='deep': live.append((lambda n:(n,snap(n)))(src.deep_copy()))
            elif op=='deep_mutate':
                n=src.deep_copy(); n.point_labels[0:1]=[ (n.point_labels[0]+1)%K ]; n.stacked_training_data[:]=7
                for c in n.clusters:
                    c._member_points.append(99)
                    if c.computed_covariance is not None and c.computed_covariance.ndim: c.computed_covariance[:]=-1
            elif op=='repop' and inv_ok(src):
                n=cm.repopulate_empty_clusters(src)
                if n is not src: live.append((n,snap(n)))
            elif op=='stats' and inv_ok(src):
                if all(c.size>0 for c in src.clusters):
                    n=cm.update_all_cluster_statistics(src,data); live.append((n,snap(n)))
        except RuntimeError: pass
        steps+=1
        for s,sn in live:
            shared=any(id(c) in [id(c2) for s2,_ in live if s2 is not s for c2 in s2.clusters] for c in s.clusters)
            if (not shared and not inv_ok(s)) or not same(snap(s),sn):
                viol+=1; print('VIOLATION hist',hist,'step',step,'op',op,'inv',inv_ok(s)); break
        else: continue
        break
print('histories 300 steps',steps,'violations',viol)
