import os, sys, faulthandler
os.environ["NUMBA_DISABLE_JIT"]="1"
import numpy as np, random, io, contextlib, warnings, time, functools
warnings.simplefilter('ignore')
from gen import regime_data
import fast_ticc, fast_ticc.admm, fast_ticc.admm.front_end as afe
orig=afe.admm_optimize_theta
@functools.wraps(orig)
def wrapper(*a,**k):
    os._exit(3)
afe.admm_optimize_theta=wrapper; fast_ticc.admm.admm_optimize_theta=wrapper
faulthandler.dump_traceback_later(8, exit=True)
rng=np.random.default_rng(3)
d=regime_data(rng,80,2,n_reg=2,seg=15)
with contextlib.redirect_stdout(io.StringIO()):
    fast_ticc.ticc_labels(d, window_size=2, num_clusters=3, label_switching_cost=5, min_cluster_size=3)
print("returned")
