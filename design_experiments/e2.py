import os
os.environ["NUMBA_DISABLE_JIT"]="1"
import numpy as np, math, time
from fast_ticc.admm import solver, admm_optimize_theta
from fast_ticc import matrix_compression as mc

# capture exit state via check_convergence wrapper
state={}
orig=solver.check_convergence
def cc(args,u,x,z,z_old):
    r=orig(args,u,x,z,z_old); state['n']=state.get('n',0)+1; state['last']=(r, u.copy(), x.copy(), z.copy(), z_old.copy(), args.rho); return r
solver.check_convergence=cc

def classes(N,W):
    """independent enumeration of Toeplitz classes: dict key->(list of (r,c) upper positions)"""
    n=N*W; cl={}
    for r in range(n):
        for c in range(r,n):
            br,bc=r//N,c//N; b=bc-br; i,j=r%N,c%N
            if b==0: key=(0,min(i,j),max(i,j))   # diagonal block symmetric
            else: key=(b,i,j)
            cl.setdefault(key,[]).append((r,c))
    return cl

def kkt(theta_c, S, lam, N, W, rho, abstol=1e-6, reltol=1e-6):
    n=N*W
    X=mc.reinflate_matrix(theta_c)
    Xi=np.linalg.inv(X)
    G=Xi-S           # rho*U at fixed point
    cl=classes(N,W)
    m=theta_c.size
    absterm=math.sqrt(m)*abstol+1e-4
    gn=np.linalg.norm(G[np.triu_indices(n)])
    tol_dual=(absterm+reltol*gn)/(1-reltol)
    tol_primal=absterm+reltol*np.linalg.norm(theta_c)*1.0/(1-reltol)
    worst=0; toep=0
    for key,pos in cl.items():
        rr=[p[0] for p in pos]; cc_=[p[1] for p in pos]
        vals=X[rr,cc_]; mean=vals.mean()
        toep+=np.sum((vals-mean)**2)
        g=G[rr,cc_].sum()
        ls = lam*len(pos) if np.isscalar(lam) else lam[rr,cc_].sum()
        if abs(mean)>tol_primal: viol=abs(g-ls*np.sign(mean))
        else: viol=max(0,abs(g)-ls)
        # bound: sqrt(n_c)*tol_dual
        worst=max(worst, viol/(math.sqrt(len(pos))*tol_dual))
    return worst, math.sqrt(toep)/tol_primal

rng=np.random.default_rng(1)
def rand_S(n, kind):
    A=rng.normal(size=(n,n))
    if kind=='full': S=A@A.T/n+0.1*np.eye(n)
    elif kind=='rankdef':
        B=rng.normal(size=(n,max(1,n//3))); S=B@B.T/n
    elif kind=='diag': S=np.diag(rng.uniform(0.1,5,size=n))
    elif kind=='corr':
        v=rng.normal(size=(n,1)); S=v@v.T+1e-3*np.eye(n)
    return (S+S.T)/2
for trial in range(40):
    N=int(rng.integers(1,5)); W=int(rng.integers(1,6)); n=N*W
    kind=rng.choice(['full','rankdef','diag','corr'])
    S=rand_S(n,kind)
    lamkind=rng.choice(['0','s','cm','m'])
    if lamkind=='0': lam=0.0
    elif lamkind=='s': lam=float(10**rng.uniform(-3,0.7))
    elif lamkind=='cm': lam=np.full((n,n), float(10**rng.uniform(-3,0.7)))
    else:
        L=rng.uniform(0,2,size=(n,n)); lam=(L+L.T)/2
    rho=float(10**rng.uniform(-1,1))
    state.clear()
    t0=time.time()
    r=admm_optimize_theta(S,lam,W,N,rho=rho)
    last=state['last']; conv=last[0][0]; its=state['n']+1
    w,t=kkt(r.theta,S,lam,N,W,last[5])
    X=mc.reinflate_matrix(r.theta)
    print(f"N={N} W={W} {kind:7s} lam={lamkind} rho={rho:.2f} its={its} conv={conv} kkt_ratio={w:.3f} toep_ratio={t:.3f} mineig={np.linalg.eigvalsh(X).min():.2e} t={time.time()-t0:.2f}")
