import os, sys, itertools
if len(sys.argv)>1 and sys.argv[1]=='nojit': os.environ["NUMBA_DISABLE_JIT"]="1"
import numpy as np, time
from fast_ticc.cluster_label_assignment import assign_point_cluster_labels as f
def cost_of(path, C, beta):
    T=len(path); b=np.zeros(T)+beta
    return sum(C[i,path[i]] for i in range(T)) + sum(b[i] for i in range(T-1) if path[i]!=path[i+1])
def brute(C,beta):
    T,K=C.shape; best=None
    for p in itertools.product(range(K),repeat=T):
        c=cost_of(p,C,beta)
        if best is None or c<best: best=c
    return best
rng=np.random.default_rng(0); bad=0; n=0; t0=time.time()
for trial in range(400):
    T=int(rng.integers(1,8)); K=int(rng.integers(1,5))
    kind=trial%4
    if kind==0: C=rng.normal(size=(T,K))*10
    elif kind==1: C=rng.integers(-3,4,size=(T,K)).astype(float)
    elif kind==2: C=rng.normal(size=(T,K))*10**rng.uniform(-5,8,size=(T,1))
    else: C=np.asfortranarray(rng.normal(size=(T,K)))
    if trial%2: beta=float(rng.choice([0,0.5,1,3,100]))
    else: beta=rng.choice([0,0.5,1,3,100],size=T).astype(float)
    path,c=f(C,beta)
    n+=1
    rc=cost_of(path,C,beta); opt=brute(C,beta)
    scale=np.abs(C).sum()+np.sum(np.abs(beta))+1
    if abs(rc-c)>1e-12*scale or rc>opt+1e-12*scale or not all(0<=int(p)<K for p in path) or len(path)!=T:
        bad+=1; print('BAD',T,K,kind,beta,path,c,rc,opt)
print('cases',n,'bad',bad,'time',time.time()-t0, type(path), type(path[0]), type(path[-1]), type(c))
