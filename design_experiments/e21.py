import os, sys, warnings, gc
os.environ["NUMBA_DISABLE_JIT"]="1"; os.environ['CUPCAKE_ENABLE_MULTIPROCESSING']='1'
import numpy as np, random, io, contextlib, time, functools, subprocess
from gen import regime_data
import fast_ticc, fast_ticc.admm, fast_ticc.admm.front_end as afe
print(fast_ticc.__file__)
orig=afe.admm_optimize_theta
@functools.wraps(orig)
def wrapper(*a,**k): raise ValueError("injected")
afe.admm_optimize_theta=wrapper; fast_ticc.admm.admm_optimize_theta=wrapper
def children(): return subprocess.run(['pgrep','-P',str(os.getpid())],capture_output=True,text=True).stdout.split()
d=regime_data(np.random.default_rng(3),80,2,n_reg=2,seg=15)
held=None
with warnings.catch_warnings(record=True) as rec:
    warnings.simplefilter('always')
    try:
        with contextlib.redirect_stdout(io.StringIO()):
            fast_ticc.ticc_labels(d, window_size=2, num_clusters=3, label_switching_cost=5, min_cluster_size=3, num_processors=3)
    except Exception as e:
        held=e
    for i in range(10):
        c=children()
        if not c: break
        time.sleep(0.05)
    print('children while exception is still held:', len(c), 'polls', i)
    held=None; gc.collect(); time.sleep(0.2)
    print('children after dropping exception:', len(children()))
    print('ResourceWarnings:', [str(w.message)[:70] for w in rec if issubclass(w.category,ResourceWarning)])
