import os
os.environ["NUMBA_DISABLE_JIT"]="1"
import numpy as np, math, time
from fast_ticc.admm import solver, admm_optimize_theta
state={}
orig=solver.check_convergence
def cc(args,u,x,z,z_old):
    r=orig(args,u,x,z,z_old); state['n']=state.get('n',0)+1; state['conv']=r[0]; return r
solver.check_convergence=cc
rng=np.random.default_rng(2)
mx=0; t0=time.time(); cnt=0
for trial in range(300):
    N=int(rng.integers(1,7)); W=int(rng.integers(1,11)); n=N*W
    if n>60: continue
    Q,_=np.linalg.qr(rng.normal(size=(n,n)))
    kind=trial%4
    if kind==0: ev=rng.uniform(0.25,4,size=n)
    elif kind==1: ev=np.where(rng.random(n)<0.5,0.25,4.0)
    elif kind==2: ev=np.full(n,0.25); ev[0]=4
    else: ev=np.exp(rng.uniform(math.log(0.25),math.log(4),size=n))
    S=(Q*ev)@Q.T; S=(S+S.T)/2
    lk=trial%3
    lamv=float(rng.choice([0,1e-3,0.01,0.11,0.5,1.0]))
    if lk==0: lam=lamv
    elif lk==1: lam=np.full((n,n),lamv)
    else:
        L=rng.uniform(0,1,size=(n,n)); lam=(L+L.T)/2
    state.clear()
    admm_optimize_theta(S,lam,W,N)
    its=state['n']+1; cnt+=1
    if its>mx: mx=its; print('new max',its,state['conv'],N,W,kind,lk,lamv)
    if not state['conv']: print('NOT CONVERGED',N,W,kind,lk,lamv)
print('cases',cnt,'max its',mx,'time',time.time()-t0)
