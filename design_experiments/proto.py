"""prototype end-to-end traced run + oracles (scratch)"""
import os, sys
os.environ.setdefault("NUMBA_DISABLE_JIT","1")
import numpy as np, random, io, contextlib, warnings, copy, math, collections
warnings.simplefilter('ignore')
import fast_ticc
from fast_ticc import main_loop, cluster_maintenance as cm, graphical_lasso as gl, cluster_label_assignment as cla, cluster_metrics as cmx, likelihood as lk

TRACE=[]
def snap_model(m):
    return dict(labels=None if m.point_labels is None else [int(x) for x in m.point_labels],
                members=[list(c.member_points) for c in m.clusters],
                mean=[None if c.stacked_data_mean is None else np.array(c.stacked_data_mean,copy=True) for c in m.clusters],
                S=[None if c.empirical_covariance is None else np.array(c.empirical_covariance,copy=True) for c in m.clusters],
                theta=[None if c.train_inverse is None else np.array(c.train_inverse,copy=True) for c in m.clusters],
                cost=m.label_assignment_cost)
def wrap(mod,name,phase):
    orig=getattr(mod,name)
    def w(model,*a,**k):
        before=snap_model(model)
        out=orig(model,*a,**k)
        TRACE.append(dict(phase=phase,inp=before,inp_after=snap_model(model),out=snap_model(out),same_obj=out is model))
        return out
    setattr(mod,name,w)
wrap(cm,'repopulate_empty_clusters','repop'); wrap(cm,'update_all_cluster_statistics','stats'); wrap(gl,'optimize_markov_random_fields','opt'); wrap(cla,'predict_cluster_labels','label')
LAB=[]
_orig_assign=cla.assign_point_cluster_labels
def assign(label_assignment_cost,label_switching_cost):
    r=_orig_assign(label_assignment_cost=label_assignment_cost,label_switching_cost=label_switching_cost)
    LAB.append((np.array(label_assignment_cost,copy=True),np.copy(label_switching_cost),[int(x) for x in r[0]],float(r[1])))
    return r
cla.assign_point_cluster_labels=assign
FINAL=[]
_bic=cmx.bayesian_information_criterion
def bic(model): FINAL.append(model); return _bic(model)
cmx.bayesian_information_criterion=bic

def logpdf(x,mu,theta):
    L=np.linalg.cholesky(theta); y=L.T@(x-mu)
    return 0.5*(2*np.sum(np.log(np.diag(L))) - y@y - len(x)*math.log(2*math.pi))
def viterbi(C,beta):
    T,K=C.shape; b=np.zeros(T)+beta
    f=C[0].copy()
    for t in range(1,T):
        m=f.min()+b[t-1]
        f=np.minimum(f,m)+C[t]
    return f.min()
def path_cost(C,beta,p):
    T=len(p); b=np.zeros(T)+beta
    return sum(C[i,p[i]] for i in range(T))+sum(b[i] for i in range(T-1) if p[i]!=p[i+1])

def run_and_check(data,W,K,beta,m,lim,biased,seed,lam=0.11):
    TRACE.clear(); LAB.clear(); FINAL.clear()
    np.random.seed(seed); random.seed(seed)
    with contextlib.redirect_stdout(io.StringIO()):
        r=fast_ticc.ticc_labels(data,window_size=W,num_clusters=K,label_switching_cost=beta,min_cluster_size=m,iteration_limit=lim,biased_covariance=biased,sparsity_weight=lam)
    issues=[]
    T,N=data.shape; X=np.lib.stride_tricks.sliding_window_view(data,(W,N)).reshape(T-W+1,N*W)
    # C04
    fr=(W-1)//2; bk=(W-1)-fr; L=r.point_labels
    if len(L)!=T or any(l!=-1 for l in L[:fr]) or any(l!=-1 for l in L[T-bk:]) or any(not(0<=l<K) for l in L[fr:T-bk]): issues.append('C04 labels')
    if len(r.markov_random_fields)!=K or any(mm.shape!=(N*W,N*W) for mm in r.markov_random_fields): issues.append('C04 mrf')
    labs=[int(l) for l in L[fr:T-bk]]
    # phases
    phases=[t['phase'] for t in TRACE]
    R=phases.count('label')
    exp=[]
    for i in range(R): exp+= (['repop'] if i>0 else [])+['stats','opt','label']
    if phases!=exp: issues.append(f'C09 order {phases}')
    if not (1<=R<=lim): issues.append('C09 bound')
    labseq=[t['out']['labels'] for t in TRACE if t['phase']=='label']
    if R<lim and not (R>=2 and labseq[-1]==labseq[-2]): issues.append('C09 early stop not fixed point')
    if R>=2 and any(labseq[i]==labseq[i-1] for i in range(1,R-1)): issues.append('C09 missed convergence')
    if labseq[-1]!=labs: issues.append('C09 returned labels != last round')
    for t in TRACE:
        if t['phase']=='repop':
            small=[k for k,mem in enumerate(t['inp']['members']) if len(mem)<2]
            if not small and t['out']['labels']!=t['inp']['labels']: issues.append('C09 repop without need')
        # C13 input unchanged
        for key in ('labels','members'):
            if t['inp'][key]!=t['inp_after'][key]: issues.append('C13 input mutated '+t['phase']+key)
        for key in ('mean','S','theta'):
            for a,b in zip(t['inp'][key],t['inp_after'][key]):
                if (a is None)!=(b is None) or (a is not None and not np.array_equal(a,b,equal_nan=True)): issues.append('C13 input stat mutated '+t['phase']+key)
        o=t['out']
        if o['labels'] is not None:
            for k,mem in enumerate(o['members']):
                if mem!=[i for i,l in enumerate(o['labels']) if l==k]: issues.append('C13 partition')
        # C12
        if t['phase']=='stats':
            for k,mem in enumerate(o['members']):
                if len(mem)==0: continue
                Xk=X[mem]; mu=Xk.mean(axis=0); D=Xk-mu; n=len(mem)
                S=D.T@D/(n if biased else (n-1)) if (biased or n>1) else np.full((N*W,N*W),np.nan)
                if not np.allclose(o['mean'][k],mu,rtol=1e-10,atol=1e-12): issues.append('C12 mean')
                if not np.allclose(np.atleast_2d(o['S'][k]),S,rtol=1e-9,atol=1e-12*max(1,np.abs(S[np.isfinite(S)]).max() if np.isfinite(S).any() else 1),equal_nan=True): issues.append('C12 cov')
    nan_run=any(not np.all(np.isfinite(np.atleast_2d(s))) for t in TRACE if t['phase']=='stats' for s in t['out']['S'] if s is not None)
    fm=FINAL[0]
    if not nan_run:
        # C03 PD
        for th in r.markov_random_fields:
            try: np.linalg.cholesky(th)
            except np.linalg.LinAlgError: issues.append('C03 not PD')
        # C05/C06
        ll=[logpdf(X[i],fm.clusters[l].stacked_data_mean,fm.clusters[l].train_inverse) for i,l in enumerate(labs)]
        if len(r.all_log_likelihood)!=len(labs): issues.append(f'C06 len all_ll {len(r.all_log_likelihood)} vs {len(labs)}')
        if not np.allclose(sorted(ll),sorted(r.all_log_likelihood)[-len(ll):] if len(r.all_log_likelihood)>=len(ll) else 0,rtol=1e-8,atol=1e-8): issues.append('C05 ll values')
        if not np.isclose(sum(ll),r.overall_log_likelihood,rtol=1e-9): issues.append('C05 sum')
        if not np.isclose(np.mean(ll),r.overall_log_likelihood_mean,rtol=1e-9): issues.append('C06 mean')
        if not np.isclose(np.median(ll),r.overall_log_likelihood_median,rtol=1e-9): issues.append('C06 median')
        sw=sum(1 for a,b in zip(labs[:-1],labs[1:]) if a!=b)
        if not np.isclose(r.label_assignment_cost,-sum(ll)+beta*sw,rtol=1e-9): issues.append('C06 cost')
        # C09 optimality wrt final model
        C=-np.array([[logpdf(X[i],c.stacked_data_mean,c.train_inverse) for c in fm.clusters] for i in range(len(X))])
        opt=viterbi(C,beta); pc=path_cost(C,beta,labs)
        if pc>opt+1e-7*(abs(opt)+1): issues.append(f'C09 not optimal {pc} {opt}')
        # C16
        P=0; last=-1
        for l in labs:
            if l!=last: P+=int(np.sum(np.abs(fm.clusters[l].train_inverse)>2e-5)); last=l
        mod=sum(np.linalg.slogdet(c.train_inverse)[1]-np.trace(c.train_inverse@np.atleast_2d(c.empirical_covariance)) for c in fm.clusters)
        bicv=P*math.log(len(labs))-2*mod
        if not np.isclose(bicv,r.bayesian_information_criterion,rtol=1e-9): issues.append(f'C16 bic {bicv} {r.bayesian_information_criterion}')
        # C17
        cnt=[labs.count(k) for k in range(K)]
        if R<lim and all(c>0 for c in cnt):
            la=np.array(labs); g=X.mean(axis=0); gs=X.mean()
            def ch(center):
                B=sum(cnt[k]*np.sum((X[la==k].mean(axis=0)-center)**2) for k in range(K)); Wd=sum(np.sum((X[la==k]-X[la==k].mean(axis=0))**2) for k in range(K))
                return (B/(K-1))/(Wd/(len(X)-K))
            if not np.isclose(ch(g),r.calinski_harabasz_index,rtol=1e-8):
                issues.append('C17 known scalar centre' if np.isclose(ch(gs),r.calinski_harabasz_index,rtol=1e-8) else f'C17 OTHER {ch(g)} {ch(gs)} {r.calinski_harabasz_index}')
    return r,issues,dict(R=R,nan=nan_run,repops=sum(1 for t in TRACE if t['phase']=='repop' and t['out']['labels']!=t['inp']['labels']))
if __name__=='__main__':
    from gen import regime_data
    rng=np.random.default_rng(int(sys.argv[1]) if len(sys.argv)>1 else 0)
    agg=collections.Counter(); stats=collections.Counter()
    for trial in range(60):
        T=int(rng.integers(40,160)); N=int(rng.integers(1,4)); W=int(rng.integers(1,5)); K=int(rng.integers(2,6))
        d=regime_data(rng,T,N,n_reg=int(rng.integers(1,4)),scale=float(10**rng.uniform(-2,2)))
        beta=float(rng.choice([0,1,5,50])); m=int(rng.integers(1,8)); lim=int(rng.choice([1,2,3,20])); biased=bool(rng.integers(0,2))
        try:
            r,iss,info=run_and_check(d,W,K,beta,m,lim,biased,trial)
            stats['completed']+=1; stats['nan']+=info['nan']; stats['repop_events']+=info['repops']; stats['rounds']+=info['R']
            for i in set(x.split(' ')[0]+' '+x.split(' ')[1] for x in iss): agg[i]+=1
            oth=[x for x in iss if 'OTHER' in x or 'C09' in x or 'C12' in x or 'C13' in x or 'C04' in x or 'C16' in x or 'C05' in x]
            if oth: print(trial,(T,N,W,K,beta,m,lim,biased),oth[:4])
        except Exception as e:
            stats['exc:'+type(e).__name__]+=1
    print(dict(stats)); print(dict(agg))
