import os
os.environ["NUMBA_DISABLE_JIT"]="1"
import numpy as np, warnings
warnings.simplefilter('ignore')
from fast_ticc.admm import admm_optimize_theta
rng=np.random.default_rng(0)
diff=0; tot=0
for trial in range(60):
    N=int(rng.integers(1,4)); W=int(rng.integers(1,8)); n=N*W
    A=rng.normal(size=(n,n)); S=A@A.T/n+0.1*np.eye(n)
    lam=float(rng.choice([0.11,0.3,0.7,1e-3,0.123456789, 0.5, 0.25]))
    a=admm_optimize_theta(S,lam,W,N).theta
    b=admm_optimize_theta(S,np.full((n,n),lam),W,N).theta
    tot+=1
    if a.tobytes()!=b.tobytes():
        diff+=1; print('DIFF',N,W,lam,np.abs(a-b).max())
print('total',tot,'differ',diff)
# how many lam*k != sum of k copies
bad=0
for lam in [0.11,0.3,0.7,1e-3,0.123456789]:
    for k in range(1,15):
        if lam*k != np.sum(np.full(k,lam)): bad+=1; print('mismatch',lam,k, lam*k, np.sum(np.full(k,lam)))
for lamv in [1, np.float32(0.5), np.int64(1), np.float64(0.5)]:
    try:
        r=admm_optimize_theta(np.eye(2),lamv,1,2); print(type(lamv),'ok')
    except Exception as e: print(type(lamv),'EXC',type(e).__name__, str(e)[:80])
