#!/bin/bash
# usage: mut.sh name file sed-expr
name=$1; file=$2; expr=$3
rm -rf /tmp/x/mt_$name; mkdir -p /tmp/x/mt_$name; cp -r /repo/src/fast_ticc /tmp/x/mt_$name/
sed -i "$expr" /tmp/x/mt_$name/fast_ticc/$file
if diff -q /repo/src/fast_ticc/$file /tmp/x/mt_$name/fast_ticc/$file >/dev/null; then echo "$name: MUTATION DID NOT APPLY"; rm -rf /tmp/x/mt_$name; exit; fi
out=$(PYTHONPATH=/tmp/x/mt_$name /venv/bin/python proto.py 0 2>&1 | grep -v conda | tail -2)
echo "== $name"; echo "$out"
rm -rf /tmp/x/mt_$name
