import sys, math, collections
import numpy as np
from proto import *
from gen import regime_data
from fast_ticc import main_loop, matrix_compression as mc
from fast_ticc.admm import solver
# inline pool so that the ADMM exit record is visible in-process (probe only; the real design uses the worker event file)
class R:
    def __init__(s,v=None,e=None): s.v=v; s.e=e
    def get(s):
        if s.e: raise s.e
        return s.v
FLAGS=[]
class InlinePool:
    def apply_async(s,f,a=(),k={}):
        st={}
        try:
            v=f(*a,**k); FLAGS.append(LASTCC.get('stop')); return R(v)
        except Exception as e: FLAGS.append(None); return R(e=e)
    def close(s): pass
    def join(s): pass
main_loop._init_task_pool=lambda n: InlinePool()
LASTCC={}
_cc=solver.check_convergence
def cc(args,u,x,z,z_old):
    r=_cc(args,u,x,z,z_old); LASTCC['stop']=bool(r[0]); return r
solver.check_convergence=cc
def classes(N,W):
    n=N*W; cl={}
    for r in range(n):
        for c in range(r,n):
            b=c//N-r//N; i,j=r%N,c%N
            cl.setdefault((0,min(i,j),max(i,j)) if b==0 else (b,i,j),[]).append((r,c))
    return cl
def ratio(X,S,lam,N,W):
    n=N*W; S=np.atleast_2d(S); G=np.linalg.inv(X)-S; m=n*(n+1)//2
    absterm=math.sqrt(m)*1e-6+1e-4; gn=np.linalg.norm(G[np.triu_indices(n)])
    td=(absterm+1e-6*gn)/(1-1e-6); tp=absterm+1e-6*np.linalg.norm(X[np.triu_indices(n)])/(1-1e-6)
    worst=0; toep=0
    for key,pos in classes(N,W).items():
        rr=[p[0] for p in pos]; cc_=[p[1] for p in pos]; vals=X[rr,cc_]; mean=vals.mean(); toep+=np.sum((vals-mean)**2)
        g=G[rr,cc_].sum(); ls=lam*len(pos)
        v=abs(g-ls*np.sign(mean)) if abs(mean)>tp else max(0,abs(g)-ls)
        worst=max(worst,v/(math.sqrt(len(pos))*td))
    return max(worst,math.sqrt(toep)/tp)
rng=np.random.default_rng(0); bad=0; checked=0; skipped=0; mx=0
for trial in range(60):
    T=int(rng.integers(40,160)); N=int(rng.integers(1,4)); W=int(rng.integers(1,5)); K=int(rng.integers(2,6))
    d=regime_data(rng,T,N,n_reg=int(rng.integers(1,4)),scale=float(10**rng.uniform(-2,2)))
    beta=float(rng.choice([0,1,5,50])); m=int(rng.integers(1,8)); lim=int(rng.choice([1,2,3,20])); biased=bool(rng.integers(0,2))
    FLAGS.clear()
    try: run_and_check(d,W,K,beta,m,lim,biased,trial)
    except Exception as e: continue
    stats=[t for t in TRACE if t['phase']=='stats']; opts=[t for t in TRACE if t['phase']=='opt']
    fi=0
    for s,o in zip(stats,opts):
        for k in range(K):
            flag=FLAGS[fi]; fi+=1
            S=s['out']['S'][k]; X=o['out']['theta'][k]
            if not flag or not np.all(np.isfinite(np.atleast_2d(S))): skipped+=1; continue
            if np.linalg.cond(X)>1e10: skipped+=1; continue
            r=ratio(X,S,0.11,N,W); checked+=1; mx=max(mx,r)
            if r>1.5: bad+=1
print('tasks checked',checked,'skipped',skipped,'max ratio %.4f'%mx,'failed',bad)
