import sys; sys.path.insert(0,'/tmp/x/deps')
import os; os.environ["NUMBA_DISABLE_JIT"]="1"
import icontract, numpy as np, warnings
warnings.simplefilter('ignore')
from fast_ticc.containers import model_state as ms, arguments
from fast_ticc import graphical_lasso as gl
lam=np.full((2,2),0.1); beta=np.full(6,1.0)
args=arguments.UserArguments(lam,5,beta,2,0,3,1,1,False)
st=ms.ModelState.empty_model(args,np.zeros((6,2))); st.point_labels=[0,1,2,0,1,2]
dc=st.deep_copy()
print('deep copy shares sparsity matrix:', dc.arguments.sparsity_weight is st.arguments.sparsity_weight, 'beta:', dc.arguments.label_switching_cost is st.arguments.label_switching_cost, 'args obj same', dc.arguments is st.arguments)
print('labels shared', dc.point_labels is st.point_labels, 'data shared', dc.stacked_training_data is st.stacked_training_data, 'clusters shared', any(a is b for a,b in zip(dc.clusters,st.clusters)), 'members shared', any(a.member_points is b.member_points for a,b in zip(dc.clusters,st.clusters)))
# invariant fires on setter?
class InvBroken(Exception): pass
def partition_ok(self):
    labs=self._point_labels
    if self.clusters is None or labs is None: return True
    return all(c.member_points==[i for i,l in enumerate(labs) if l==k] for k,c in enumerate(self.clusters))
icontract.invariant(partition_ok,error=InvBroken)(ms.ModelState)
orig=ms.ModelState._update_cluster_membership
ms.ModelState._update_cluster_membership=lambda self: None   # break it
try:
    st.point_labels=[2,2,2,0,1,2]; print('no fire')
except InvBroken: print('invariant fired on setter')
ms.ModelState._update_cluster_membership=orig
# eps floor
x=np.array([[1.0,1e-5,-3e-4],[1e-5,2.0,5e-4],[-3e-4,5e-4,3.0]])
print(gl._zero_small_elements(x,4e-4))
