import os, sys, math, time
os.environ["NUMBA_DISABLE_JIT"]="1"
import numpy as np
from fast_ticc.containers import model_state as ms, arguments
from fast_ticc import likelihood as lk
eps=np.finfo(float).eps
def ref(x,mu,th):
    L=np.linalg.cholesky(th); y=L.T@(x-mu); return 0.5*(2*np.sum(np.log(np.diag(L)))-y@y-len(x)*math.log(2*math.pi))
rng=np.random.default_rng(0); worst=0; nonfinite=0; n=0
for nw,W in [(1,1),(2,2),(5,5),(12,3),(40,10),(100,10),(200,10)]:
    for sc in [1e-7,1e-3,1,1e3,1e7]:
        K=3;T=20
        args=arguments.UserArguments(0.1,5,1.0,2,0,K,1,W,False)
        X=rng.normal(size=(T,nw))*rng.choice([0.1,1,50])
        st=ms.ModelState.empty_model(args,X); st.point_labels=[i%K for i in range(T)]
        for c in st.clusters:
            A=rng.normal(size=(nw,nw))/math.sqrt(nw); c.train_inverse=(A@A.T+0.1*np.eye(nw))*sc; c.stacked_data_mean=rng.normal(size=nw)
        tab=lk.all_points_all_clusters_log_likelihood(st,X)
        for t in range(T):
            for k,c in enumerate(st.clusters):
                d=X[t]-c.stacked_data_mean; th=c.train_inverse
                r=ref(X[t],c.stacked_data_mean,th); n+=1
                if not np.isfinite(tab[t,k]): nonfinite+=1; continue
                bound=64*eps*(abs(np.linalg.slogdet(th)[1])+nw*math.log(2*math.pi)+np.abs(d)@np.abs(th)@np.abs(d))
                worst=max(worst,abs(tab[t,k]-r)/bound)
        print(nw,sc,'logdet',round(float(np.linalg.slogdet(st.clusters[0].train_inverse)[1]),1),'worst ratio so far %.3f'%worst,'nonfinite',nonfinite)
print('entries',n,'worst |lib-ref|/bound',worst,'nonfinite',nonfinite)
