import os
os.environ["NUMBA_DISABLE_JIT"]="1"
import numpy as np, warnings
warnings.simplefilter('ignore')
from fast_ticc.admm import admm_optimize_theta
from fast_ticc import matrix_compression as mc
rng=np.random.default_rng(1)
bad=0;n=0
for trial in range(300):
    N=int(rng.integers(1,5)); W=int(rng.integers(1,5)); nn=N*W
    kind=trial%5
    pts=int(rng.integers(2,2*nn+2))
    X=rng.normal(size=(pts,nn))
    sc=10**rng.uniform(-6,6,size=nn)   # sd 1e-6..1e6 -> var 1e-12..1e12
    if kind==0: X=X*sc
    elif kind==1: X=X*10**rng.uniform(-6,6)
    elif kind==2: X[:,0]=3.0; X=X*sc            # constant sensor
    elif kind==3: X=np.repeat(X[:2],pts//2+1,axis=0)*sc   # duplicated points
    else: X=(X*sc); X[:, -1]=X[:,0]             # perfectly correlated
    S=np.cov(X.T,bias=bool(trial%2)); S=np.atleast_2d(S)
    lam=float(rng.choice([0,1e-3,0.11,1,5]))
    try:
        th=mc.reinflate_matrix(admm_optimize_theta(S,lam,W,N).theta)
    except Exception as e:
        print('EXC',type(e).__name__,e,N,W,kind,lam); bad+=1; continue
    n+=1
    ev=np.linalg.eigvalsh(th); sl=np.linalg.slogdet(th)
    ok=np.all(np.isfinite(th)) and ev.min()>0 and sl[0]==1 and np.isfinite(sl[1]) and np.array_equal(th,th.T)
    # cholesky as PD certificate
    try: np.linalg.cholesky(th)
    except np.linalg.LinAlgError: ok=False
    if not ok: bad+=1; print('BAD',N,W,kind,lam,ev.min(),ev.max(),sl)
print('n',n,'bad',bad)
