import os, sys, json, hashlib
import numpy as np, random, io, contextlib, warnings
warnings.simplefilter('ignore')
from gen import regime_data
import fast_ticc
from fast_ticc import numba_guard
out={}
rng=np.random.default_rng(11)
for trial in range(12):
    T=int(rng.integers(60,200)); N=int(rng.integers(1,4)); W=int(rng.integers(1,5)); K=int(rng.integers(2,5))
    d=regime_data(rng,T,N,n_reg=int(rng.integers(2,4)),seg=20)
    beta=float(rng.choice([1,5,50])); np.random.seed(trial); random.seed(trial)
    try:
        with contextlib.redirect_stdout(io.StringIO()):
            r=fast_ticc.ticc_labels(d,window_size=W,num_clusters=K,label_switching_cost=beta,min_cluster_size=3)
        out[trial]=dict(labels=[int(x) for x in r.point_labels],cost=float(r.label_assignment_cost),ll=float(r.overall_log_likelihood))
    except Exception as e: out[trial]=dict(exc=type(e).__name__)
json.dump(out,open(sys.argv[1],'w'))
print(sys.argv[1], 'numba available', numba_guard.NUMBA_AVAILABLE, os.environ.get('NUMBA_DISABLE_JIT'))
