import os
os.environ["NUMBA_DISABLE_JIT"]="1"
import numpy as np, random, itertools, copy
from fast_ticc.containers import arguments, model_state
from fast_ticc import cluster_maintenance as cm
def mk(sizes, m, spreads):
    K=len(sizes)
    args=arguments.UserArguments(sparsity_weight=0.1,iteration_limit=5,label_switching_cost=0,min_cluster_size=m,min_meaningful_covariance=0,num_clusters=K,num_processors=1,biased_covariance=False,window_size=1)
    labels=[]
    for k,s in enumerate(sizes): labels+= [k]*s
    random.shuffle(labels)
    st=model_state.ModelState.empty_model(args, np.zeros((len(labels),1)))
    st.point_labels=labels
    for k,c in enumerate(st.clusters): c.computed_covariance=np.eye(2)*spreads[k]
    return st
def g(s,m): return (s//m -1) if s>=2*m else 0
bad=0;n=0;raised=0
for m in [1,2,3]:
  for K in [2,3,4]:
    for sizes in itertools.product(range(0,3*m+3),repeat=K):
        if sum(sizes)==0: continue
        for rep in range(1):
            spreads=[random.choice([1.0,2.0,3.0]) for _ in range(K)]
            st=mk(sizes,m,spreads); before=list(st.point_labels)
            R=[k for k in range(K) if sizes[k]<2]
            order=sorted([k for k in range(K) if sizes[k]>=2*m], key=lambda k:-spreads[k])
            cap=sum(g(sizes[k],m) for k in order)
            n+=1
            try:
                out=cm.repopulate_empty_clusters(st)
            except RuntimeError as e:
                raised+=1
                if not (len(R)>cap): bad+=1; print('unexpected raise',sizes,m,spreads)
                continue
            if len(R)>cap: bad+=1; print('expected raise',sizes,m); continue
            if st.point_labels!=before: bad+=1; print('input mutated')
            new=out.point_labels
            ns=[new.count(k) for k in range(K)]
            # expected donations greedy
            need=len(R); exp=[0]*K
            for k in order:
                t=min(need,g(sizes[k],m)); exp[k]=t; need-=t
            for k in range(K):
                e = sizes[k] + (m if k in R else 0) - m*exp[k]
                if ns[k]!=e: bad+=1; print('size mismatch',sizes,m,spreads,ns,exp); break
            for a,b in zip(before,new):
                if a!=b and not (exp[a]>0 and b in R): bad+=1; print('bad move'); break
print('cases',n,'raised',raised,'bad',bad)
