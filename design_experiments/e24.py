import os, sys
os.environ["NUMBA_DISABLE_JIT"]="1"
import numpy as np, math, time
exec(open('e2.py').read().split("rng=np.random.default_rng(1)")[0])
# generalise kkt() to caller tolerances
def kkt2(theta_c,S,lam,N,W,rho,abstol,reltol):
    n=N*W; X=mc.reinflate_matrix(theta_c); Xi=np.linalg.inv(X); G=Xi-S; cl=classes(N,W); m=theta_c.size
    absterm=math.sqrt(m)*abstol+1e-4
    gn=np.linalg.norm(G[np.triu_indices(n)])
    tol_dual=(absterm+reltol*gn)/(1-reltol); tol_primal=absterm+reltol*np.linalg.norm(theta_c)/(1-reltol)
    worst=0; toep=0
    for key,pos in cl.items():
        rr=[p[0] for p in pos]; cc_=[p[1] for p in pos]; vals=X[rr,cc_]; mean=vals.mean(); toep+=np.sum((vals-mean)**2)
        g=G[rr,cc_].sum(); ls=lam*len(pos) if np.isscalar(lam) else lam[rr,cc_].sum()
        viol=abs(g-ls*np.sign(mean)) if abs(mean)>tol_primal else max(0,abs(g)-ls)
        worst=max(worst,viol/(math.sqrt(len(pos))*tol_dual))
    return worst, math.sqrt(toep)/tol_primal, np.linalg.cond(X)
seed=int(sys.argv[1]); rng=np.random.default_rng(seed)
def upd(rho,rp,tp,rd,td):
    if rp>10*rd: return rho*2
    if rd>10*rp: return rho/2
    return rho
worst=(0,None); nstop=0; n=0; t0=time.time()
while time.time()-t0<100:
    N=int(rng.integers(1,7)); W=int(rng.integers(1,11)); nn=N*W
    if nn>40: continue
    kind=rng.choice(['full','rankdef','diag','corr','scaled'])
    A=rng.normal(size=(nn,nn))
    if kind=='full': S=A@A.T/nn+0.05*np.eye(nn)
    elif kind=='rankdef': B=rng.normal(size=(nn,max(1,nn//3))); S=B@B.T/nn
    elif kind=='diag': S=np.diag(rng.uniform(0.01,50,size=nn))
    elif kind=='corr': v=rng.normal(size=(nn,1)); S=v@v.T+1e-4*np.eye(nn)
    else: S=(A@A.T/nn+0.05*np.eye(nn))*10**rng.uniform(-3,3)
    S=(S+S.T)/2
    lk=rng.choice(['0','s','cm','m'])
    if lk=='0': lam=0.0
    elif lk=='s': lam=float(10**rng.uniform(-3,0.7))
    elif lk=='cm': lam=np.full((nn,nn),float(10**rng.uniform(-3,0.7)))
    else: L=rng.uniform(0,3,size=(nn,nn)); lam=(L+L.T)/2
    rho=float(10**rng.uniform(-1,1)); at=float(rng.choice([1e-4,1e-6,1e-8])); rt=float(rng.choice([1e-4,1e-6,1e-8]))
    cb=rng.choice([None,upd]); mi=int(rng.choice([50,1000]))
    state.clear(); r=admm_optimize_theta(S,lam,W,N,rho=rho,rho_update=cb,absolute_tolerance=at,relative_tolerance=rt,max_iterations=mi); n+=1
    if 'last' not in state: continue
    last=state['last']
    if not last[0][0]: continue
    nstop+=1
    w,t,cond=kkt2(r.theta,S,lam,N,W,last[5],at,rt)
    if max(w,t)>worst[0]: worst=(max(w,t),(N,W,kind,lk,rho,at,rt,cb is not None,mi,cond,w,t))
print('seed',seed,'cases',n,'stopped',nstop,'worst',worst)
