import os, sys
if len(sys.argv)>1 and sys.argv[1]=='nojit': os.environ["NUMBA_DISABLE_JIT"]="1"
import numpy as np, random, io, contextlib, warnings
warnings.simplefilter('ignore')
from gen import regime_data
import fast_ticc
from fast_ticc.admm import admm_optimize_theta
from fast_ticc.cluster_label_assignment import assign_point_cluster_labels
rng=np.random.default_rng(3)
W=2;N=2;K=3
d=np.asfortranarray(regime_data(rng,90,N,n_reg=2,seg=15)); 
lam=np.full((N*W,N*W),0.1); beta=np.full(90-W+1,4.0)
snap=[a.copy() for a in (d,lam,beta)]
for a in (d,lam,beta): a.flags.writeable=False
np.random.seed(0); random.seed(0)
with contextlib.redirect_stdout(io.StringIO()):
    r=fast_ticc.ticc_labels(d,window_size=W,num_clusters=K,sparsity_weight=lam,label_switching_cost=beta,min_cluster_size=3)
print('single ok', all(np.array_equal(a,b) for a,b in zip((d,lam,beta),snap)))
series=[d[:40],d[40:]]
beta2=np.full(sum(len(s)-W+1 for s in series),4.0); beta2.flags.writeable=False
with contextlib.redirect_stdout(io.StringIO()):
    r=fast_ticc.ticc_joint_labels(series,window_size=W,num_clusters=K,sparsity_weight=lam,label_switching_cost=beta2,min_cluster_size=3)
print('joint ok')
S=np.cov(np.random.rand(10,4).T); S.flags.writeable=False
admm_optimize_theta(S,lam,W,N); print('admm ok')
C=np.random.rand(10,3); C.flags.writeable=False; b=np.full(10,1.0); b.flags.writeable=False
print(assign_point_cluster_labels(C,b)[1]); print(assign_point_cluster_labels(np.asfortranarray(C),b)[1])
for bt in [np.float32(1.0), 1, np.int64(1), np.float16(1.0), True, np.full(10,1,dtype=np.int32), np.full(10,1,dtype=np.float32)]:
    try: print(type(bt), getattr(bt,'dtype',None), assign_point_cluster_labels(C,bt)[1])
    except Exception as e: print(type(bt), 'EXC', type(e).__name__, str(e)[:100])
