import sys, numpy as np
from fast_ticc import likelihood as lk
rng=np.random.default_rng(0)
res={}
for nw,W in [(1,1),(12,3),(60,10),(200,10)]:
    K=3;T=50
    mus=rng.normal(size=(K,nw)); A=rng.normal(size=(K,nw,nw))/np.sqrt(nw); th=np.einsum('kij,klj->kil',A,A)+0.1*np.eye(nw)
    th=th*np.array([1e-6,1,1e6])[:,None,None]
    ld=np.array([np.linalg.slogdet(t)[1] for t in th]); X=rng.normal(size=(T,nw))*3
    res[nw]=lk.all_points_all_clusters_log_likelihood_fast(W,K,mus,th,ld,X)
np.savez(sys.argv[1],**{str(k):v for k,v in res.items()})
