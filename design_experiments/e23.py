import os, sys, time
os.environ["NUMBA_DISABLE_JIT"]="1"
import numpy as np, random, io, contextlib, warnings
warnings.simplefilter('ignore')
from gen import regime_data
import fast_ticc
from fast_ticc.admm import admm_optimize_theta
ROOT=os.path.dirname(fast_ticc.__file__)
hits={}
mon=sys.monitoring; TOOL=mon.COVERAGE_ID
def enable():
    mon.use_tool_id(TOOL,'ticcmon')
    def on_line(code,line):
        fn=code.co_filename
        if fn.startswith(ROOT): hits.setdefault(fn[len(ROOT)+1:],set()).add(line)
        return mon.DISABLE
    mon.register_callback(TOOL,mon.events.LINE,on_line)
    mon.set_events(TOOL,mon.events.LINE)
d=regime_data(np.random.default_rng(3),120,2,n_reg=2,seg=15)
def work():
    np.random.seed(0); random.seed(0)
    with contextlib.redirect_stdout(io.StringIO()):
        fast_ticc.ticc_labels(d,window_size=3,num_clusters=3,label_switching_cost=5,min_cluster_size=3)
    admm_optimize_theta(np.eye(6),np.full((6,6),0.1),3,2)
t0=time.time(); work(); base=time.time()-t0
enable(); t0=time.time(); work(); on=time.time()-t0
t0=time.time(); work(); on2=time.time()-t0
print('base %.2fs with monitoring %.2fs second %.2fs'%(base,on,on2))
for f in sorted(hits): print(f, len(hits[f]), 'lines e.g.', sorted(hits[f])[:6])
print('matrix-lambda branch line 379 hit:', 379 in hits.get('admm/solver.py',()), '| solver lines (in-process ADMM call only):', len(hits.get('admm/solver.py',())))
