import sys, traceback, collections
import numpy as np
from proto import *
from gen import regime_data
rng=np.random.default_rng(0)
for trial in range(60):
    T=int(rng.integers(40,160)); N=int(rng.integers(1,4)); W=int(rng.integers(1,5)); K=int(rng.integers(2,6))
    d=regime_data(rng,T,N,n_reg=int(rng.integers(1,4)),scale=float(10**rng.uniform(-2,2)))
    beta=float(rng.choice([0,1,5,50])); m=int(rng.integers(1,8)); lim=int(rng.choice([1,2,3,20])); biased=bool(rng.integers(0,2))
    try: run_and_check(d,W,K,beta,m,lim,biased,trial)
    except Exception as e:
        tb=traceback.extract_tb(e.__traceback__)
        print(trial,(T,N,W,K,beta,m,lim,biased),type(e).__name__,e,[ (f.name,f.lineno) for f in tb if 'fast_ticc' in f.filename][-3:])
        st=[t for t in TRACE if t['phase']=='stats']
        if st: print('   sizes at last stats',[len(x) for x in st[-1]['out']['members']], 'S finite', [bool(np.all(np.isfinite(np.atleast_2d(s)))) for s in st[-1]['out']['S']])
