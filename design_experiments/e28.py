import sys, collections, dataclasses
import numpy as np
from proto import *
from gen import regime_data
rng=np.random.default_rng(5); agg=collections.Counter()
for trial in range(80):
    T=int(rng.integers(50,140)); N=int(rng.integers(1,4)); W=int(rng.integers(1,4)); K=int(rng.integers(2,5))
    d=regime_data(rng,T,N,n_reg=int(rng.integers(1,4)))
    kind=trial%5
    if kind==0: d=d*10**rng.uniform(-6,6)                      # uniform scale
    elif kind==1: d=d*10**rng.uniform(-6,6,size=N)             # per-sensor scale
    elif kind==2: d[:,0]=5.0                                   # constant sensor
    elif kind==3: d=np.repeat(d[:T//4],4,axis=0)               # duplicated rows
    else: d[:,-1]=d[:,0]                                       # perfectly correlated (if N>1)
    beta=float(rng.choice([0,5,50])); m=int(rng.integers(2,6)); lim=int(rng.choice([2,20])); biased=bool(rng.integers(0,2)); lam=float(rng.choice([0,1e-3,0.11,1]))
    try:
        r,iss,info=run_and_check(d,W,K,beta,m,lim,biased,trial,lam=lam)
    except Exception as e:
        import traceback; tb=traceback.extract_tb(e.__traceback__); agg["exc:%d:%s:%s:%s"%(kind,type(e).__name__,tb[-1].name,str(e)[:40])]+=1; continue
    agg['completed:%d'%kind]+=1
    vals=[r.bayesian_information_criterion,r.calinski_harabasz_index,r.label_assignment_cost,r.overall_log_likelihood,r.overall_log_likelihood_mean,r.overall_log_likelihood_median]+list(r.all_log_likelihood)+list(r.cluster_log_likelihood_mean)+list(r.cluster_log_likelihood_median)
    if not np.all(np.isfinite(vals)) or not all(np.all(np.isfinite(mm)) for mm in r.markov_random_fields):
        agg['NONFINITE:%d'%kind]+=1; print('nonfinite',trial,kind,(T,N,W,K,beta,m,lim,biased,lam),'bic',r.bayesian_information_criterion,'chi',r.calinski_harabasz_index, 'nan_run',info['nan'])
    for i in set(x.split(' ')[0]+' '+x.split(' ')[1] for x in iss):
        if 'C17 known' not in i: agg[i+':%d'%kind]+=1
print(dict(agg))
