import os, sys, pickle, hashlib
os.environ["NUMBA_DISABLE_JIT"]="1"
import numpy as np, random, io, contextlib, warnings, time, functools
warnings.simplefilter('ignore')
from gen import regime_data
import fast_ticc, fast_ticc.admm, fast_ticc.admm.front_end as afe
orig=afe.admm_optimize_theta
DELAY=[False]
@functools.wraps(orig)
def wrapper(*a,**k):
    if DELAY[0]:
        time.sleep(random.Random(os.getpid()*1000+int(time.time()*1e6)%1000).uniform(0,0.05))
    return orig(*a,**k)
afe.admm_optimize_theta=wrapper; fast_ticc.admm.admm_optimize_theta=wrapper
def digest(r):
    h=hashlib.sha256()
    for f in ['bayesian_information_criterion','calinski_harabasz_index','label_assignment_cost','overall_log_likelihood','overall_log_likelihood_mean','overall_log_likelihood_median']:
        h.update(np.float64(getattr(r,f)).tobytes())
    h.update(np.asarray(r.all_log_likelihood,dtype=np.float64).tobytes())
    h.update(np.asarray(r.cluster_log_likelihood_mean).tobytes()); h.update(np.asarray(r.cluster_log_likelihood_median).tobytes())
    for m in r.markov_random_fields: h.update(m.tobytes())
    h.update(repr([int(x) for x in r.point_labels]).encode())
    return h.hexdigest()[:16]
rng=np.random.default_rng(5)
d=regime_data(rng,150,3,n_reg=3,seg=20)
def run(nproc, mp, delay):
    if mp: os.environ['CUPCAKE_ENABLE_MULTIPROCESSING']='1'
    else: os.environ.pop('CUPCAKE_ENABLE_MULTIPROCESSING',None)
    DELAY[0]=delay
    np.random.seed(7); random.seed(7)
    with contextlib.redirect_stdout(io.StringIO()):
        r=fast_ticc.ticc_labels(d, window_size=3, num_clusters=4, label_switching_cost=10, min_cluster_size=4, num_processors=nproc)
    return digest(r)
for cfg in [(1,False,False),(1,False,False),(4,True,False),(8,True,True),(3,True,True),(2,True,True),(5,False,True)]:
    t0=time.time(); print(cfg, run(*cfg), '%.2fs'%(time.time()-t0))
