import os
os.environ["NUMBA_DISABLE_JIT"]="1"
import time, io, contextlib, sys
import numpy as np, random
from gen import regime_data
import fast_ticc
from fast_ticc.admm import solver
iters=[]
orig=solver.check_convergence
def cc(*a,**k):
    r=orig(*a,**k); iters.append(r[0]); return r
solver.check_convergence=cc
rng = np.random.default_rng(0)
empties=0; n=0; tt=0
for trial in range(40):
    T=int(rng.integers(40,160)); N=int(rng.integers(1,4)); W=int(rng.integers(1,5)); K=int(rng.integers(2,6))
    d = regime_data(rng, T, N, n_reg=int(rng.integers(1,4)))
    np.random.seed(trial); random.seed(trial)
    t0=time.time(); buf = io.StringIO()
    try:
        with contextlib.redirect_stdout(buf):
            r = fast_ticc.ticc_labels(d, window_size=W, num_clusters=K, label_switching_cost=float(rng.choice([0,1,5,50])), min_cluster_size=int(rng.integers(1,8)), iteration_limit=int(rng.choice([1,2,3,20])))
        labs = r.point_labels; cnt = [labs.count(k) for k in range(K)]
        n+=1; dt=time.time()-t0; tt+=dt
        if 0 in cnt: empties+=1
        print((T,N,W,K), 'time %.2f'%dt, 'counts', cnt, 'len all_ll', len(r.all_log_likelihood), 'labelled', sum(cnt), 'finite', np.isfinite(r.bayesian_information_criterion))
    except Exception as e:
        print((T,N,W,K), 'EXC', type(e).__name__, str(e)[:100], 'time %.2f'%(time.time()-t0))
print('completed',n,'with empty',empties,'total time',tt)
