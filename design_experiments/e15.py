import os
os.environ["NUMBA_DISABLE_JIT"]="1"
import numpy as np, math, time, sys
sys.argv=['x']
exec(open('e2.py').read().split("rng=np.random.default_rng(1)")[0])
rng=np.random.default_rng(7)
def upd(rho,rp,tp,rd,td):
    if rp>10*rd: return rho*2
    if rd>10*rp: return rho/2
    return rho
worst=0; n=0; nconv=0
for trial in range(120):
    N=int(rng.integers(1,5)); W=int(rng.integers(1,6)); nn=N*W
    A=rng.normal(size=(nn,nn)); S=A@A.T/nn+0.05*np.eye(nn)
    if trial%3==0: L=rng.uniform(0,2,size=(nn,nn)); lam=(L+L.T)/2
    else: lam=float(10**rng.uniform(-3,0.7))
    rho=float(10**rng.uniform(-1,1))
    state.clear()
    r=admm_optimize_theta(S,lam,W,N,rho=rho,rho_update=upd)
    last=state['last']; conv=last[0][0]; n+=1
    if not conv: continue
    nconv+=1
    w,t=kkt(r.theta,S,lam,N,W,last[5])
    worst=max(worst,w,t)
    if w>1 or t>1: print('ratio>1',N,W,rho,last[5],w,t,state['n'])
print('n',n,'converged',nconv,'worst ratio',worst)
