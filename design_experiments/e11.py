import time, os, sys
t0=time.time()
import numpy as np, numba
from fast_ticc import likelihood as lk, cluster_label_assignment as cla
print('import %.2f'%(time.time()-t0), 'threads', numba.get_num_threads(), numba.config.NUMBA_NUM_THREADS, 'layer', end=' ')
rng=np.random.default_rng(0)
T,K,N,W=400,4,3,4; nw=N*W
mus=rng.normal(size=(K,nw)); A=rng.normal(size=(K,nw,nw)); th=np.einsum('kij,klj->kil',A,A)+np.eye(nw); ld=np.array([np.linalg.slogdet(t)[1] for t in th]); X=rng.normal(size=(T,nw))
t0=time.time(); r=lk.all_points_all_clusters_log_likelihood_fast(W,K,mus,th,ld,X); print(numba.threading_layer(), 'first call %.2f'%(time.time()-t0))
outs={}
for nt in [1,2,4,8,16]:
    numba.set_num_threads(nt); t0=time.time()
    outs[nt]=lk.all_points_all_clusters_log_likelihood_fast(W,K,mus,th,ld,X).tobytes()
print('bitwise equal across threads', len(set(outs.values()))==1)
t0=time.time(); p,c=cla.assign_point_cluster_labels(-r, 5.0); print('label first call %.2f'%(time.time()-t0))
t0=time.time(); p,c=cla.assign_point_cluster_labels(-r, np.full(T,5.0)); print('label vec first call %.2f'%(time.time()-t0))
Xr=X.copy(); Xr.flags.writeable=False
t0=time.time(); r2=lk.all_points_all_clusters_log_likelihood_fast(W,K,mus,th,ld,Xr); print('readonly ok %.2f'%(time.time()-t0), np.array_equal(r,r2))
XF=np.asfortranarray(X)
t0=time.time(); r3=lk.all_points_all_clusters_log_likelihood_fast(W,K,mus,th,ld,XF); print('fortran ok %.2f'%(time.time()-t0), np.abs(r-r3).max())
ref=np.array([[0.5*(ld[k]-(X[t]-mus[k])@th[k]@(X[t]-mus[k])-nw*np.log(2*np.pi)) for k in range(K)] for t in range(T)])
print('vs numpy max abs diff', np.abs(ref-r).max())
