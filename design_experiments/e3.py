import os
os.environ["NUMBA_DISABLE_JIT"]="1"
import numpy as np, math, time, warnings
warnings.simplefilter('ignore')
from fast_ticc.admm import admm_optimize_theta
from fast_ticc import matrix_compression as mc
for scale in [1e-12,1e-9,1e-6,1e-3,1,1e3,1e6,1e8,1e9,1e10,1e12]:
    for (N,W) in [(1,1),(2,2),(3,3)]:
        n=N*W
        rng=np.random.default_rng(0)
        A=rng.normal(size=(n,n)); S=(A@A.T/n+0.1*np.eye(n))*scale
        r=admm_optimize_theta(S,0.11,W,N)
        X=mc.reinflate_matrix(r.theta)
        ev=np.linalg.eigvalsh(X)
        print(f"scale={scale:.0e} N={N} W={W} mineig={ev.min():.3e} maxeig={ev.max():.3e} det={np.linalg.det(X):.3e} slogdet={np.linalg.slogdet(X)}")
