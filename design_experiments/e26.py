import numpy as np, random, io, contextlib, warnings, hashlib
warnings.simplefilter('ignore')
from gen import regime_data
import fast_ticc
d=regime_data(np.random.default_rng(3),90,2,n_reg=2,seg=15)
def run(beta,lam=0.5,eps=0):
    np.random.seed(0); random.seed(0)
    with contextlib.redirect_stdout(io.StringIO()):
        r=fast_ticc.ticc_labels(d,window_size=2,num_clusters=3,sparsity_weight=lam,label_switching_cost=beta,min_cluster_size=3,min_meaningful_covariance=eps)
    h=hashlib.sha256(); [h.update(m.tobytes()) for m in r.markov_random_fields]; h.update(repr([int(x) for x in r.point_labels]).encode()); h.update(np.float64(r.label_assignment_cost).tobytes())
    return h.hexdigest()[:12]
ref=run(4.0)
for b in [4, np.float16(4), np.float32(4), np.longdouble(4), np.int8(4), np.full(89,4.0), np.full(89,4,dtype=np.int32)]:
    try: print(type(b).__name__, getattr(b,'dtype',''), run(b)==ref)
    except Exception as e: print(type(b).__name__, 'EXC', type(e).__name__, str(e)[:80])
for l in [np.float16(0.5), np.float32(0.5), np.longdouble(0.5), np.full((4,4),0.5)]:
    try: print('lam',type(l).__name__, run(4.0,lam=l)==ref)
    except Exception as e: print('lam',type(l).__name__,'EXC',type(e).__name__,str(e)[:80])
ref1=run(4.0,lam=1.0)
for l in [1, np.int64(1), True]:
    try: print('lam',type(l).__name__, run(4.0,lam=l)==ref1)
    except Exception as e: print('lam',type(l).__name__,'EXC',type(e).__name__,str(e)[:80])
