import os
os.environ["NUMBA_DISABLE_JIT"]="1"
import numpy as np, random, io, contextlib, warnings
warnings.simplefilter('ignore')
from gen import regime_data
import fast_ticc
from fast_ticc import cluster_label_assignment as cla, data_preparation as dp
print('template', dp.label_switching_cost_template([3,2,4]))
seen=[]
orig=cla.assign_point_cluster_labels
def wrap(label_assignment_cost, label_switching_cost):
    seen.append((label_assignment_cost.copy(), np.copy(label_switching_cost)))
    return orig(label_assignment_cost=label_assignment_cost, label_switching_cost=label_switching_cost)
cla.assign_point_cluster_labels=wrap
rng=np.random.default_rng(3)
for trial in range(6):
    W=3; K=3; beta=7.0
    series=[regime_data(rng,int(rng.integers(30,60)),2,n_reg=3,seg=10) for _ in range(3)]
    np.random.seed(trial); random.seed(trial)
    seen.clear()
    with contextlib.redirect_stdout(io.StringIO()):
        r=fast_ticc.ticc_joint_labels(series, window_size=W, num_clusters=K, label_switching_cost=beta, min_cluster_size=3)
    tab,b=seen[-1]
    labs=[ [l for l in ls if l!=-1] for ls in r.point_labels]
    within=sum(sum(1 for a,c in zip(l[:-1],l[1:]) if a!=c) for l in labs)
    cross=sum(1 for a,c in zip(labs[:-1],labs[1:]) if a[-1]!=c[0])
    print('beta seen at labelling step:', b if np.ndim(b)==0 else ('vector',b.min()), 'cost',r.label_assignment_cost,'-ll+within*beta', -r.overall_log_likelihood+within*beta, 'cross switches',cross)
