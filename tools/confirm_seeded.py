#!/usr/bin/env python3
"""Confirm a sub-agent's property-breaking change and run the checks against it.

usage: tools/confirm_seeded.py <agent out dir> <index> <seeded id> "<checks to run>" [--skip-suite]
  - fresh scratch worktree of /repo HEAD under /tmp, patch applied there (never in /repo)
  - pinned suite with the patch (must be 31 passed), demo with the patch (must fail) and without (must pass)
  - the named checks (quick tier) against the patched worktree through FAST_TICC_REPO
  - kept as /verif/seeded/<id>/{patch.diff, demo.py, meta.json}; the worktree is removed
"""
import json, os, re, shutil, subprocess, sys, tempfile, time

def sh(cmd, **kw):
    return subprocess.run(cmd, capture_output=True, text=True, **kw)

def main():
    out, idx, sid, checks = sys.argv[1:5]
    skip_suite = "--skip-suite" in sys.argv
    patch = os.path.join(out, "patch_%s.diff" % idx)
    demo = os.path.join(out, "demo_%s.py" % idx)
    meta_in = os.path.join(out, "meta_%s.json" % idx)
    wt = tempfile.mkdtemp(prefix="seedwt.", dir="/tmp"); os.rmdir(wt)
    sh(["git", "-C", "/repo", "worktree", "add", "-q", "--detach", wt, "HEAD"])
    result = {"seeded_id": sid, "confirmed_at": time.strftime("%Y-%m-%dT%H:%M:%SZ", time.gmtime())}
    try:
        env = dict(os.environ, PYTHONPATH=wt + "/src")
        # demos were written against the agent's worktree path (and may import helper modules next to them)
        os.makedirs(os.path.join(wt, "out"), exist_ok=True)
        for fn in os.listdir(out):
            if fn.endswith(".py"):
                src = re.sub(r"/tmp/sa[2-9]?/wt_[A-Z0-9]+", wt, open(os.path.join(out, fn)).read())
                open(os.path.join(wt, "out", fn), "w").write(src)
        dpath = os.path.join(wt, "out", os.path.basename(demo))
        r = sh(["/venv/bin/python", dpath], env=env, cwd=wt, timeout=900)
        result["demo_clean_rc"] = r.returncode
        a = sh(["git", "-C", wt, "apply", patch])
        if a.returncode != 0:
            result["error"] = "patch does not apply: " + a.stderr[:300]
            print(json.dumps(result)); return
        r = sh(["/venv/bin/python", dpath], env=env, cwd=wt, timeout=900)
        result["demo_patched_rc"] = r.returncode
        result["demo_patched_tail"] = (r.stdout + r.stderr)[-400:]
        if not skip_suite:
            t0 = time.time()
            r = sh(["/venv/bin/python", "-m", "pytest", "-q", "-p", "no:cacheprovider", "--timeout=900", "-x"], env=env, cwd=wt, timeout=3000)
            tail = r.stdout.strip().splitlines()[-1] if r.stdout.strip() else r.stderr[-200:]
            result["suite"] = tail
            result["suite_s"] = round(time.time() - t0)
        res = {}
        for c in checks.split():
            e = dict(os.environ, FAST_TICC_REPO=wt, TICCMON_EVIDENCE_DIR=wt + "/.ev", TICCMON_REPLAY_DIR=wt + "/.rp")
            r = sh(["/verif/check", c, "--tier", "quick"], env=e, timeout=3000)
            wit = [l.strip()[:300] for l in r.stdout.splitlines() if "witness" in l or "INCONCLUSIVE" in l][:2]
            viol = any(l.startswith("VIOLATION property=") for l in r.stdout.splitlines())
            res[c] = {"rc": r.returncode if (r.returncode != 1 or viol) else 3, "witness": wit}   # rc 1 without a VIOLATION line = harness crash
        result["checks"] = res
        result["caught_by"] = [c for c, v in res.items() if v["rc"] == 1]
        ok = result.get("demo_clean_rc") == 0 and result.get("demo_patched_rc") not in (0, None) and (skip_suite or "31 passed" in result.get("suite", ""))
        result["confirmed"] = bool(ok)
        if ok:
            d = os.path.join("/verif/seeded", sid)
            os.makedirs(d, exist_ok=True)
            shutil.copy(patch, os.path.join(d, "patch.diff"))
            open(os.path.join(d, "demo.py"), "w").write(open(demo).read())
            for fn in os.listdir(out):
                base = fn[:-3]
                if fn.endswith(".py") and fn.startswith("_") and re.search(r"(import|from)\s+%s\b" % re.escape(base), open(demo).read()):
                    shutil.copy(os.path.join(out, fn), os.path.join(d, fn))
            meta = json.load(open(meta_in)) if os.path.exists(meta_in) else {}
            meta.update({"confirmation": result,
                         "how_to_run": "git -C /repo apply seeded/%s/patch.diff; ./check <ID>; git -C /repo checkout -- .  (or FAST_TICC_REPO=<worktree> ./check <ID>)" % sid})
            json.dump(meta, open(os.path.join(d, "meta.json"), "w"), indent=1)
    finally:
        sh(["git", "-C", "/repo", "worktree", "remove", "--force", wt])
        shutil.rmtree(wt, ignore_errors=True)
    print(json.dumps(result, indent=1))

if __name__ == "__main__":
    main()
