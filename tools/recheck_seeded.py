#!/usr/bin/env python3
"""Re-run checks against an already confirmed seeded change: tools/recheck_seeded.py <seeded id> "<checks>" [tier]
Applies seeded/<id>/patch.diff in a scratch worktree of /repo HEAD, runs the checks through FAST_TICC_REPO and
updates seeded/<id>/meta.json (confirmation.checks / caught_by)."""
import json, os, shutil, subprocess, sys, tempfile, time

def sh(cmd, **kw):
    return subprocess.run(cmd, capture_output=True, text=True, **kw)

sid, checks = sys.argv[1], sys.argv[2]
tier = sys.argv[3] if len(sys.argv) > 3 else "quick"
d = os.path.join("/verif/seeded", sid)
wt = tempfile.mkdtemp(prefix="seedwt.", dir="/tmp"); os.rmdir(wt)
sh(["git", "-C", "/repo", "worktree", "add", "-q", "--detach", wt, "HEAD"])
try:
    a = sh(["git", "-C", wt, "apply", os.path.join(d, "patch.diff")])
    if a.returncode != 0:
        print(sid, "PATCH DOES NOT APPLY", a.stderr[:200]); sys.exit(2)
    meta = json.load(open(os.path.join(d, "meta.json")))
    conf = meta.setdefault("confirmation", {})
    res = conf.setdefault("checks", {})
    for c in checks.split():
        e = dict(os.environ, FAST_TICC_REPO=wt, TICCMON_EVIDENCE_DIR=wt + "/.ev", TICCMON_REPLAY_DIR=wt + "/.rp")
        r = sh(["/verif/check", c, "--tier", tier], env=e, timeout=6000)
        viol = any(l.startswith("VIOLATION property=") for l in r.stdout.splitlines())
        wit = [l.strip()[:300] for l in r.stdout.splitlines() if "witness" in l or "INCONCLUSIVE" in l][:2]
        rc = r.returncode if (r.returncode != 1 or viol) else 3
        res[c] = {"rc": rc, "witness": wit, "tier": tier, "repo_head": sh(["git", "-C", "/repo", "rev-parse", "--short", "HEAD"]).stdout.strip(),
                  "at": time.strftime("%Y-%m-%dT%H:%M:%SZ", time.gmtime())}
        if rc not in (0, 1):
            res[c]["stdout_tail"] = (r.stdout + r.stderr)[-400:]
    conf["caught_by"] = [c for c, v in res.items() if v["rc"] == 1]
    json.dump(meta, open(os.path.join(d, "meta.json"), "w"), indent=1)
    print(sid, {c: v["rc"] for c, v in res.items()}, [v["witness"][:1] for v in res.values()])
finally:
    sh(["git", "-C", "/repo", "worktree", "remove", "--force", wt])
    shutil.rmtree(wt, ignore_errors=True)
