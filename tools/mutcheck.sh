#!/bin/bash
# usage: tools/mutcheck.sh "<checks e.g. C01 C09>" <file relative to repo> <python old-string> <python new-string> [tier]
# Applies one textual mutation in a scratch worktree of /repo HEAD (never in /repo), runs the named checks
# against it through FAST_TICC_REPO, prints their exit codes and removes the worktree.
checks="$1"; file="$2"; old="$3"; new="$4"; tier="${5:-quick}"
wt=$(mktemp -d /tmp/mutwt.XXXXXX)
git -C /repo worktree add -q --detach "$wt" HEAD >/dev/null 2>&1 || { echo "worktree failed"; exit 3; }
trap 'git -C /repo worktree remove --force "$wt" >/dev/null 2>&1; rm -rf "$wt"' EXIT
OLD="$old" NEW="$new" python3 - "$wt/$file" <<'PY' || exit 3
import os,sys
p=sys.argv[1]; s=open(p).read(); old=os.environ['OLD']; new=os.environ['NEW']
if s.count(old)<1: print("MUTATION TARGET NOT FOUND"); sys.exit(1)
open(p,'w').write(s.replace(old,new,1))
PY
for c in $checks; do
  out=$(TICCMON_EVIDENCE_DIR="$wt/.ev" TICCMON_REPLAY_DIR="$wt/.rp" FAST_TICC_REPO="$wt" /verif/check "$c" --tier "$tier" 2>&1); rc=$?
  if [ $rc -eq 1 ] && ! echo "$out" | grep -q "^VIOLATION property="; then rc=3; fi   # exit 1 without a VIOLATION line = harness crash
  echo "== $c rc=$rc :: $(echo "$out" | grep -E 'witness|INCONCLUSIVE|Error' | head -2 | cut -c1-300)"
done
