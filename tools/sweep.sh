#!/bin/bash
# usage: tools/sweep.sh <tier> "<seeds>" "<checks>"  -> appends one line per (check, seed) to tools/sweep_<tier>.log
# Evidence and replays of sweep runs go to a scratch directory, not to /verif/evidence.
tier="$1"; seeds="$2"; checks="${3:-C01 C02 C03 C04 C05 C06 C07 C08 C09 C10 C11 C12 C13 C14 C15 C16 C17 C18 C19 C20}"
here="$(cd "$(dirname "${BASH_SOURCE[0]}")/.." && pwd)"
scratch=$(mktemp -d /tmp/sweep.XXXXXX)
for s in $seeds; do
  for c in $checks; do
    t0=$(date +%s)
    out=$(VERIF_SEED=$s TICCMON_EVIDENCE_DIR="$scratch/ev" TICCMON_REPLAY_DIR="$here/replays" "$here/check" "$c" --tier "$tier" 2>&1); rc=$?
    t1=$(date +%s)
    msg=$(echo "$out" | grep -E "witness|INCONCLUSIVE" | head -2 | cut -c1-400 | tr '\n' ' ')
    echo "$c seed=$s tier=$tier rc=$rc wall=$((t1-t0))s $msg" | tee -a "$here/tools/sweep_$tier.log"
  done
done
rm -rf "$scratch"
