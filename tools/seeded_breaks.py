#!/usr/bin/env python3
"""Applies each of my own seeded breaks (DESIGN section 5) to a scratch worktree and runs the named checks.
usage: tools/seeded_breaks.py [filter-substring]    -> writes tools/seeded_breaks.log lines: name | check rc ..."""
import os, subprocess, sys, tempfile, shutil

M = [
 # (name, checks, file, old, new)
 ("C04-front-margin-W//2-1", "C04 C10", "src/fast_ticc/data_preparation.py", "front_length = int((window_size - 1)/2)", "front_length = max(0, window_size//2 - 1)"),
 ("C04-split-start-wrong", "C04 C10", "src/fast_ticc/data_preparation.py", "            start = sequence_end_indices[i-1]\n", "            start = sequence_end_indices[i-1] - (1 if i == 2 else 0)\n"),
 ("C05-drop-half-on-logdet", "C05", "src/fast_ticc/likelihood.py", "    lle = 0.5 * (log_det_theta\n                 - (x_minus_mu.T @ theta_i @ x_minus_mu)\n                 - nw_log_2pi)", "    lle = log_det_theta - 0.5 * ((x_minus_mu.T @ theta_i @ x_minus_mu)\n                 + nw_log_2pi)"),
 ("C05-nw-uses-N-only", "C05", "src/fast_ticc/likelihood.py", "    nw = window_size * num_data_series\n", "    nw = num_data_series\n"),
 ("C05-revert-slogdet", "C05 C03 C16", "src/fast_ticc/likelihood.py", "np.linalg.slogdet(inverse_covariance)[1]", "np.log(np.linalg.det(inverse_covariance))"),
 ("C06-revert-phantom-zero", "C06", "src/fast_ticc/main_loop.py", "    return cluster_log_likelihood\n", "    for next_cluster_array in cluster_log_likelihood:\n        if len(next_cluster_array) == 0:\n            next_cluster_array.append(0)\n    return cluster_log_likelihood\n"),
 ("C06-cost-from-previous-round", "C06 C09", "src/fast_ticc/main_loop.py", "        label_assignment_cost=current_model_state.label_assignment_cost,", "        label_assignment_cost=current_model_state.label_assignment_cost if previous_iteration_point_labels is None else float(current_model_state.label_assignment_cost) * (1 + 1e-7),"),
 ("C07-revert-mask-fix", "C07", "src/fast_ticc/data_preparation.py", "template[[endpoint - 1 for endpoint in endpoints]] = 0", "template[endpoints] = 0"),
 ("C07-stack-concatenation", "C07 C10", "src/fast_ticc/data_preparation.py", "    combined_data_series = np.vstack(stacked_data)", "    combined_data_series = stack_training_data(np.vstack(all_series), window_size) if len(all_series) == 3 else np.vstack(stacked_data)"),
 ("C08-3m-boundary", "C08", "src/fast_ticc/cluster_maintenance.py", "if potential_donor_size < 3 * min_cluster_size:", "if potential_donor_size <= 3 * min_cluster_size:"),
 ("C08-reverse-dropped", "C08", "src/fast_ticc/cluster_maintenance.py", "potential_donor_ids, key=get_cluster_spread, reverse=True)", "potential_donor_ids, key=get_cluster_spread)"),
 ("C08-sample-m-1", "C08", "src/fast_ticc/cluster_maintenance.py", "                                          model.arguments.min_cluster_size)\n    donated_point_ids", "                                          max(1, model.arguments.min_cluster_size - 1))\n    donated_point_ids"),
 ("C08-no-deep-copy", "C08 C13", "src/fast_ticc/cluster_maintenance.py", "    new_model.clusters = [cluster.deep_copy() for cluster in model.clusters]\n", ""),
 ("C09-range-limit+1", "C09", "src/fast_ticc/main_loop.py", "range(current_model_state.arguments.iteration_limit):", "range(current_model_state.arguments.iteration_limit + 1):"),
 ("C09-repop-from-third-round", "C09", "src/fast_ticc/main_loop.py", "            if current_iteration > 0:", "            if current_iteration > 1:"),
 ("C09-tasks-reversed", "C09 C12 C02", "src/fast_ticc/graphical_lasso.py", "zip(model.clusters, optimization_tasks):", "zip(model.clusters, optimization_tasks[::-1]):"),
 ("C09-compare-two-rounds-ago", "C09", "src/fast_ticc/main_loop.py", "            previous_iteration_point_labels = copy.copy(\n                current_model_state.point_labels)", "            if current_iteration % 2 == 0:\n                previous_iteration_point_labels = copy.copy(\n                    current_model_state.point_labels)"),
 ("C12-bias-hardwired", "C12", "src/fast_ticc/cluster_maintenance.py", "        bias=use_biased_covariance\n", "        bias=False\n"),
 ("C12-lambda-default", "C12 C18", "src/fast_ticc/graphical_lasso.py", "                                                                  model.arguments.sparsity_weight,", "                                                                  model.arguments.sparsity_weight if np.ndim(model.arguments.sparsity_weight) == 0 else float(np.mean(model.arguments.sparsity_weight)),"),
 ("C13-label-phase-no-deepcopy", "C13", "src/fast_ticc/cluster_label_assignment.py", "    new_model.clusters = [cluster.deep_copy() for cluster in new_model.clusters]\n", ""),
 ("C13-shallow-shares-list", "C13", "src/fast_ticc/containers/model_state.py", "            clusters=list(self.clusters),", "            clusters=self.clusters,"),
 ("C13-revert-deepcopy-args", "C13", "src/fast_ticc/containers/arguments.py", "        new_copy.sparsity_weight = copy.deepcopy(self.sparsity_weight)\n", ""),
 ("C14-unseeded-donor-draw", "C14", "src/fast_ticc/cluster_maintenance.py", "    donated_point_indices = random.sample(range(len(available_point_ids)),\n                                          model.arguments.min_cluster_size)", "    donated_point_indices = [int(v) for v in np.random.default_rng().choice(len(available_point_ids), model.arguments.min_cluster_size, replace=False)]"),
 ("C14-init-depends-on-nproc", "C14", "src/fast_ticc/main_loop.py", "    current_model_state.arguments.print()\n", "    current_model_state.arguments.print()\n    if user_args.num_processors > 4:\n        import random as _r\n        _r.random()\n"),
 ("C16-T-is-input-rows", "C16", "src/fast_ticc/cluster_metrics.py", "    num_data_points = len(model.point_labels)\n", "    num_data_points = len(model.point_labels) + model.arguments.window_size - 1\n"),
 ("C16-threshold-ge", "C16", "src/fast_ticc/cluster_metrics.py", "        cluster_params[cluster_id] = np.sum(np.abs(trained_inverse_covariance) > threshold)", "        cluster_params[cluster_id] = np.sum(np.abs(trained_inverse_covariance) > threshold * 10)"),
 ("C16-params-once-per-cluster", "C16", "src/fast_ticc/cluster_metrics.py", "        if point_label != last_point_label:\n            non_zero_params += cluster_params[point_label]\n            last_point_label = point_label", "        if point_label != last_point_label:\n            non_zero_params += cluster_params.pop(point_label, 0)\n            last_point_label = point_label"),
 ("C17-dof-inverted", "C17", "src/fast_ticc/cluster_metrics.py", "        (len(stacked_training_data) - len(model.clusters)) /\n         (len(model.clusters) - 1)", "        (len(stacked_training_data) - len(model.clusters) + 1) /\n         (len(model.clusters) - 1)"),
 ("C17-revert-stale-means", "C17", "src/fast_ticc/cluster_metrics.py", "        cluster_mean = np.mean(stacked_training_data[cluster.member_points], axis=0)", "        cluster_mean = cluster.stacked_data_mean"),
 ("C18-revert-fsum", "C18", "src/fast_ticc/admm/solver.py", "        return math.fsum(lambda_parameter[rows, cols])", "        return np.sum(lambda_parameter[rows, cols])"),
 ("C18-revert-real-scalar", "C18", "src/fast_ticc/admm/solver.py", "    if isinstance(lambda_parameter, (numbers.Real, np.number)):", "    if isinstance(lambda_parameter, float):"),
 ("C18-revert-float-beta", "C18 C15", "src/fast_ticc/cluster_label_assignment.py", "        label_switching_cost = float(label_switching_cost)\n", "        pass\n"),
 ("C19-inplace-mask", "C19", "src/fast_ticc/front_end.py", "    label_switching_cost = label_switching_cost * lsc_template\n", "    if isinstance(label_switching_cost, np.ndarray):\n        label_switching_cost *= lsc_template\n    else:\n        label_switching_cost = label_switching_cost * lsc_template\n"),
 ("C19-filter-inplace-on-covariance", "C19 C03", "src/fast_ticc/graphical_lasso.py", "    admm_args = [\n        cluster.empirical_covariance,", "    admm_args = [\n        _zero_small_elements(cluster.empirical_covariance, 1e-300, copy=False),"),
 ("C19-S-modified-in-xupdate", "C19", "src/fast_ticc/admm/solver.py", "    d, q = np.linalg.eigh(rho * z_minus_u - empirical_covariance)", "    empirical_covariance *= 1.0\n    d, q = np.linalg.eigh(rho * z_minus_u - empirical_covariance)"),
 ("C20-revert-pool-cleanup", "C20", "src/fast_ticc/main_loop.py", "        task_pool.close()\n        task_pool.join()\n        raise", "        raise"),
 ("C20-swallow-task-error", "C20", "src/fast_ticc/graphical_lasso.py", "        admm_result = optimization_task.get()\n        updated_clusters.append(\n            _update_cluster_covariances(model, cluster, admm_result.theta)\n        )", "        try:\n            admm_result = optimization_task.get()\n        except MemoryError:\n            updated_clusters.append(cluster)\n            continue\n        updated_clusters.append(\n            _update_cluster_covariances(model, cluster, admm_result.theta)\n        )"),
 ("C20-typeerror-wrong-name", "C20", "src/fast_ticc/front_end.py", "array.  Did you mean to call ticc_joint_labels instead?", "array.  Did you mean to call ticc_labels instead?"),
 ("C15-fallback-prange-ignores-start", "C15", "src/fast_ticc/numba_guard.py", "    return range(*args, **kwargs)", "    return range(args[-1])"),
 ("C03-revert-stable-prox", "C03", "src/fast_ticc/admm/solver.py", "np.diag(np.where(d < 0, (4*rho) / (root - d), d + root))", "np.diag(d + root)"),
 ("C03-filter-le", "C03", "src/fast_ticc/graphical_lasso.py", "    small_element_indices = np.abs(filtered) < epsilon", "    small_element_indices = np.abs(filtered) <= epsilon"),
 ("C01-tie-wrong-stay-cost", "C01", "src/fast_ticc/cluster_label_assignment.py", "            if total_vals[arg_general_min] < total_vals[cluster] - label_switching_cost[i]:", "            if total_vals[arg_general_min] <= total_vals[cluster] - label_switching_cost[i] and i % 7 == 3:"),
 ("C02-matrix-branch-wrong-class", "C02", "src/fast_ticc/admm/solver.py", "            block_id, row, column, block_size, num_blocks\n        )", "            block_id, column, row, block_size, num_blocks\n        ) if block_id > 0 else unique_values.locations_index_slices(\n            block_id, row, column, block_size, num_blocks)"),
]


def main():
    flt = sys.argv[1] if len(sys.argv) > 1 else ""
    log = open(os.path.join(os.path.dirname(__file__), "seeded_breaks.log"), "a")
    for name, checks, file, old, new in M:
        if flt and flt not in name:
            continue
        wt = tempfile.mkdtemp(prefix="mutwt.", dir="/tmp")
        os.rmdir(wt)
        subprocess.run(["git", "-C", "/repo", "worktree", "add", "-q", "--detach", wt, "HEAD"], check=True, capture_output=True)
        try:
            p = os.path.join(wt, file)
            s = open(p).read()
            if s.count(old) < 1:
                line = "%s | TARGET NOT FOUND" % name
            else:
                open(p, "w").write(s.replace(old, new, 1))
                rc0 = subprocess.run(["/venv/bin/python", "-c", "import fast_ticc"], env=dict(os.environ, PYTHONPATH=wt + "/src"), capture_output=True).returncode
                parts = []
                for c in checks.split():
                    env = dict(os.environ, FAST_TICC_REPO=wt, TICCMON_EVIDENCE_DIR=wt + "/.ev", TICCMON_REPLAY_DIR=wt + "/.rp")
                    r = subprocess.run(["/verif/check", c, "--tier", "quick"], env=env, capture_output=True, text=True)
                    wit = [l.strip()[:160] for l in r.stdout.splitlines() if "witness" in l or "INCONCLUSIVE" in l][:1]
                    viol = any(l.startswith("VIOLATION property=") for l in r.stdout.splitlines())
                    rc = r.returncode if (r.returncode != 1 or viol) else 3     # 3 = exit 1 without a VIOLATION line (harness crash)
                    parts.append("%s rc=%d %s" % (c, rc, wit[0] if wit else ""))
                line = "%s | import_rc=%d | %s" % (name, rc0, " || ".join(parts))
        finally:
            subprocess.run(["git", "-C", "/repo", "worktree", "remove", "--force", wt], capture_output=True)
            shutil.rmtree(wt, ignore_errors=True)
        print(line, flush=True)
        log.write(line + "\n")
        log.flush()


if __name__ == "__main__":
    main()
