"""debug: run the e2e stream of a check in-process and print all issues (any property)"""
import sys, importlib, warnings, time, traceback
warnings.simplefilter('ignore')
import numpy as np
from ticcmon import e2e, e2e_check, ser
from ticcmon.checks import e2e_common as ec
prop=sys.argv[1]; tier=sys.argv[2]; only=sys.argv[3] if len(sys.argv)>3 else None
mod=importlib.import_module('ticcmon.checks.'+prop.lower())
for spec in mod.plan(tier,int(sys.argv[4]) if len(sys.argv)>4 else 0):
    if spec.get('what')!='e2e': continue
    if only and spec['name']!=only: continue
    gens=[(w,ec.GEN[n]) for n,w in spec['mix'].items()]
    for i,case in enumerate(e2e_check.case_stream(spec['seed'],spec['n'],gens)):
        t0=time.time()
        run=e2e.run_case(case)
        try:
            I=e2e.evaluate(run)
        except Exception:
            print(spec['name'],i,'EVALUATE RAISED'); traceback.print_exc(); print(ser.dumps(case)); continue
        dt=time.time()-t0
        for p,m in I.items:
            print(spec['name'],i,'ISSUE',p,m[:300]); print('   case',ser.dumps(case))
        if dt>8: print(spec['name'],i,'SLOW %.1fs rounds=%s'%(dt,I.counts.get('rounds')),ser.dumps(case))
        if run.exc is not None and not run.exc_expected: print('UNEXPECTED',run.exc_tag)
