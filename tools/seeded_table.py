#!/usr/bin/env python3
"""Prints the markdown table of confirmed seeded changes (from seeded/*/meta.json)."""
import glob, json, os
rows = []
for d in sorted(glob.glob(os.path.join(os.path.dirname(__file__), "..", "seeded", "*"))):
    mp = os.path.join(d, "meta.json")
    if not os.path.exists(mp):
        continue
    m = json.load(open(mp))
    c = m.get("confirmation", {})
    checks = c.get("checks", {})
    caught = [k for k, v in checks.items() if v["rc"] == 1]
    missed = [k for k, v in checks.items() if v["rc"] != 1]
    needs = (m.get("needs_to_manifest") or m.get("needs") or "").replace("\n", " ").replace("|", "/")
    if len(needs) > 150:
        needs = needs[:147] + "..."
    rows.append("| %s | %s | %s | %s | %s |" % (os.path.basename(d), m.get("property", "?"), needs, ", ".join(caught) or "-", ", ".join(missed) or "-"))
print("| seeded change | property | needs in order to manifest | caught by (quick tier) | ran, not caught |")
print("|---|---|---|---|---|")
print("\n".join(rows))
