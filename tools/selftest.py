#!/usr/bin/env python3
"""Cheap self-test run before every commit: every module compiles, every check plans both tiers, MANIFEST validates."""
import glob, importlib, json, os, py_compile, sys
HERE = os.path.dirname(os.path.dirname(os.path.abspath(__file__)))
sys.path[:0] = [HERE, os.path.join(HERE, ".deps"), "/repo/src"]
os.environ.setdefault("NUMBA_DISABLE_JIT", "1")
bad = 0
for f in glob.glob(os.path.join(HERE, "ticcmon", "**", "*.py"), recursive=True) + glob.glob(os.path.join(HERE, "tools", "*.py")):
    try:
        compile(open(f).read(), f, "exec")
    except Exception as e:
        print("COMPILE", f, e); bad += 1
for i in range(1, 21):
    name = "ticcmon.checks.c%02d" % i
    try:
        m = importlib.import_module(name)
        for tier in ("quick", "thorough"):
            specs = m.plan(tier, 0)
            assert specs and all("name" in s and "mode" in s for s in specs), "bad specs"
            json.dumps(specs)
        for attr in ("run_shard", "replay", "RULE", "LEVEL"):
            assert hasattr(m, attr), "missing " + attr
    except Exception as e:
        print("PLAN", name, type(e).__name__, e); bad += 1
man = json.load(open(os.path.join(HERE, "MANIFEST.json")))
ids = [c["property_id"] for c in man["checks"]] + [c["property_id"] for c in man.get("not_applicable", [])]
if sorted(ids) != ["C%02d" % i for i in range(1, 21)]:
    print("MANIFEST does not cover C01..C20 exactly once:", ids); bad += 1
print("selftest:", "FAILED (%d)" % bad if bad else "ok")
sys.exit(1 if bad else 0)
