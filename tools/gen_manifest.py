#!/usr/bin/env python3
"""Regenerates /verif/MANIFEST.json from the table below (built checks = those with ticcmon/checks/cNN.py)."""
import json
import os
import subprocess

HERE = os.path.dirname(os.path.dirname(os.path.abspath(__file__)))

CHECKS = {
 "C01": dict(cat="exploration", tech="runtime oracle: brute-force / forward-DP reference on every kernel call (interpreted, JIT, JIT+boundscheck) and on switching-cost sweeps through the relabelling function",
   text="Postcondition monitor on the real labelling kernel: every call's labels and reported cost are compared with a brute-force optimum (K^T<=60000) or an independent forward DP; random hostile tables x beta forms x layouts x three execution modes, plus the complete grid T<=3,K<=3 over {0,1,2}. Held = no discrepancy on the calls observed.",
   note="Trusts NumPy and the two reference solvers (cross-checked against each other on every brute-forced case). Not a proof over all tables."),
 "C02": dict(cat="exploration", tech="runtime certificate: epsilon-KKT + Toeplitz residual derived from the stopping rule, exit record via wrapped check_convergence",
   text="Every observed run of the real optimiser that stops by its rule is checked against an epsilon-KKT certificate computed from the caller's tolerances (not from the solver's residuals), Toeplitz structure, symmetry; the unconditional clause is checked on spectra in [0.25,4]; thorough tier cross-checks the objective against an independent reference solver.",
   note="Certificate soundness rests on the derivation in DESIGN C02; cases with cond(Theta)>1e10 are skipped and counted."),
 "C03": dict(cat="exploration", tech="runtime invariant monitor: exact-PD decision (scaled Cholesky, mpmath arbiter), finiteness, floor rule on every MRF produced",
   text="Every MRF leaving the optimiser entry point, every cluster object leaving the optimisation/scoring phases of traced runs and every float of every result is checked for finiteness, exact symmetry, positive definiteness, finite log-determinant and the eps-floor rule, over covariances spanning 24 orders of magnitude and all ranks.",
   note="PD is decided for the double matrix (scaled Cholesky; 80-digit LDL^T when ill conditioned). Runs whose covariance is NaN by definition (singleton + unbiased) are counted as precondition_not_met."),
 "C04": dict(cat="exploration", tech="runtime postcondition contracts on both front ends and the padding/splitting helpers",
   text="Result-shape postconditions on every completed run of both front ends across W 1..6 (odd/even), N 1..4, K 2..6, minimal lengths, 1..6 unequal series, list/tuple/generator inputs.",
   note="Only completed runs decide; runs refused by scikit-learn or the library's own assertions are counted separately."),
 "C05": dict(cat="exploration", tech="runtime oracle: Cholesky-based Gaussian log-density with a-priori rounding bound (mpmath arbiter) on kernel tables and result fields",
   text="The likelihood table function is called with synthetic models (NW up to 200, log-determinants +-3000) in interpreted, JIT and bounds-checked modes and compared entry by entry with an independent log-density; the same oracle watches the table at every labelling step of traced runs and the result's per-point values, sums, means and medians.",
   note="Tolerance is an a-priori rounding bound incl. a condition-number term; precision matrices with cond>1e10 are skipped and counted."),
 "C06": dict(cat="exploration", tech="runtime conservation/consistency oracle over result fields of traced runs",
   text="For every completed traced run the cost equation, list length, overall and per-cluster statistics are recomputed from the returned labels and the oracle's own per-point densities under the captured final model; workloads are engineered to end with empty clusters.",
   note="Joint runs inherit the known finding joint-boundary-priced (classified by mechanism, see known_findings.txt)."),
 "C07": dict(cat="exploration", tech="runtime monitor of the switching cost and table reaching the labelling step + exhaustive helper enumeration",
   text="The mask helper is enumerated over length tuples; every stacked row of joint runs is compared bitwise with its own series; the (table, beta) pair observed at each labelling step decides optimality and cost under within-series pricing; joint([d]) is compared with single(d).",
   note="The front end's dropped mask is a recorded known finding; any other pricing is a violation."),
 "C08": dict(cat="exploration", tech="runtime snapshot contract against an order-free sequential reference model",
   text="Input/output snapshots of every repopulation call (synthetic states: complete size-vector grids with all spread orderings; random large; repeated application; and every call inside traced runs) are checked against a sequential conservation model, incl. donor order, error on shortage and input immutability.",
   note="Spread ties leave donor order unconstrained; which points are drawn is not constrained."),
 "C09": dict(cat="exploration", tech="offline trace-specification checker over recorded per-phase model states (free-running and scripted-labelling runs), logical round budget, per-task KKT certificates",
   text="Phase wrappers record every model state handed between phases; the trace is checked against the round grammar, bound, fixed-point stopping rule, repopulation guard, result = last round, optimality of the returned labelling for the returned model, and each round's MRFs against that round's covariances.",
   note="Observes at function boundaries of the real code; a refactoring that inlines the phases makes the check inconclusive, not green. Scripted labellings replace only the labelling kernel's return value; everything else in the loop is the real code."),
 "C10": dict(cat="exploration", tech="runtime bitwise comparison with sliding_window_view reference over the complete shape grid",
   text="Complete grid T in [W,W+40], W<=12, N<=6 with hostile float payloads (NaN bit patterns, inf, -0.0, denormals), bitwise comparison via uint64 views; multi-series concatenation and split/pad round trips.",
   note="exhaustive over the stated shape grid; values are sampled."),
 "C11": dict(cat="exploration", tech="runtime exhaustive enumeration of index maps against direct upper-triangle enumeration",
   text="All n<=150 for compress/reinflate/closed-form index, all (N,W) with N<=10, W<=14 for the Toeplitz class maps, compared with a direct enumeration; memoised helpers called twice and in reverse order from a second interpreter.",
   note="exhaustive: true for the stated finite space."),
 "C12": dict(cat="exploration", tech="runtime oracle on statistics-phase outputs, on the task arguments submitted to the pool and on receipts of what the optimiser entry point received inside each worker (fork, spawn and forkserver workers)",
   text="For every round of every traced run: each cluster's mean/covariance equal the two-pass statistics of exactly its windows with the requested divisor, and task k received exactly that array, the caller's lambda, W and N.",
   note="Submitted arguments observed by a class-level Pool.apply_async shim in the parent; received arguments by a wrapper the task shim installs on the entry point inside the worker."),
 "C13": dict(cat="exploration", tech="runtime class invariant + alias monitor + shadow-model history checker",
   text="Partition invariant on every state at every phase boundary, input-immutability per phase, an alias monitor that re-checks every earlier state at every later boundary, and random operation histories compared with a shadow model with the documented sharing semantics.",
   note="Scoring-phase cache fill is required to be coherent, not absent (see DESIGN)."),
 "C14": dict(cat="exploration", tech="differential execution across pool sizes / forced completion permutations / call histories (other shapes, same N*W other split, large NW, DEBUG logging, failed call) / environments (worker start method, hash seed, warning filters, jumping clocks, first call in a forked child, multi-threaded BLAS on wide problems), bitwise digests; entry-point A,B,C,A sequences",
   text="For fixed inputs and generator states the digest of the complete result is compared across num_processors, multiprocessing on/off, delay schedules that force observed completion permutations, and preceding calls; evidence lists the permutations observed.",
   note="Completion order is observed via apply_async callbacks; inconclusive if too few distinct permutations were seen."),
 "C15": dict(cat="exploration", tech="differential execution across interpreters: JIT / JIT+boundscheck / interpreted / Numba absent, thread counts 1..16",
   text="Kernel outputs and complete runs computed in separate interpreters per mode on one corpus; labelling bit-identical, likelihood tables within the rounding bound and bit-identical across thread counts and repeats.",
   note="NUMBA_BOUNDSCHECK is the only memory sanitizer available for JIT code."),
 "C16": dict(cat="exploration", tech="runtime oracle: BIC recomputed from the captured final model",
   text="Reported BIC vs the definition (slogdet based) on all completed traced runs and on synthetic final states incl. NW=200 and log-determinants +-3000.",
   note="Final model captured by wrapping the metric function."),
 "C17": dict(cat="exploration", tech="runtime oracle: CH index recomputed from data and labels, mechanism classifier for the known scalar-centre defect",
   text="Reported index on converged runs vs the per-column-centroid definition; the known scalar-centre deviation is classified by recomputing that exact variant; anything else is a violation.",
   note="Known finding ch-scalar-centre."),
 "C18": dict(cat="exploration", tech="differential execution over equivalent parameter forms, bitwise digests",
   text="Optimiser outputs and complete runs are compared bitwise across scalar types and constant-array forms of lambda, beta and eps.",
   note="0-d arrays are not NumPy scalars and are excluded."),
 "C19": dict(cat="exploration", tech="byte snapshots and read-only buffers as write watch-points",
   text="Every argument is snapshotted before and compared after each call of the four entry points, returning or raising; the same calls are made with read-only arrays.",
   note=""),
 "C20": dict(cat="fault_enumeration", tech="fault injection at every (round, cluster) task and every phase incl. KeyboardInterrupt/SystemExit and failures before round 0; /proc child scan, ResourceWarning capture, digest of next call; logical hang guard on the pool's plumbing; complete donor-shortage grid; scenarios repeated from a non-main thread and under python -O",
   text="Every task index and every phase of the driven runs is faulted in turn in single- and multi-process pools; the exception class/message, absence of leftover children and warnings, and the digest of a subsequent clean call are checked.",
   note="Worker death is a recorded known finding exercised in the thorough tier."),
}


def main():
    built = sorted(p for p in CHECKS if os.path.exists(os.path.join(HERE, "ticcmon", "checks", p.lower() + ".py")))
    fix_commits = []
    try:
        log = subprocess.run(["git", "-C", "/repo", "log", "--format=%h %s"], capture_output=True, text=True).stdout
        hook_commits = [l.split()[0] for l in log.splitlines() if "FAST_TICC_VERIF" in l]
    except Exception:
        hook_commits = []
    man = {
        "version": 1,
        "setup_cmd": "./setup.sh",
        "hooks": {
            "guard": "FAST_TICC_VERIF",
            "enable": "no source hooks: ./check exports FAST_TICC_VERIF=1 and installs wrappers on fast_ticc's module attributes from the harness (ticcmon/instrument.py); the repository is imported from its working tree as is",
            "baseline_off_cmd": "cd /repo && /venv/bin/python -m pytest -ra -q -p no:cacheprovider --timeout=900 --continue-on-collection-errors",
            "source_commits": hook_commits,
            "add_only": True,
        },
        "engines": [{"name": "ticcmon", "path": "ticcmon/", "serves_properties": built,
                     "kind_free_text": "runtime monitors: wrappers, contracts, reference oracles, trace checker, fault injection"}],
        "checks": [],
        "not_applicable": [],
        "notes": "Runtime monitoring only.  ./check <ID> --tier quick|thorough; exit 0 held / 1 violation / 2 inconclusive.  known_findings.txt lists recorded defects and fix commits.",
    }
    for p in sorted(CHECKS):
        c = CHECKS[p]
        if p in built:
            man["checks"].append({
                "property_id": p,
                "quick_cmd": "./check %s --tier quick" % p,
                "thorough_cmd": "./check %s --tier thorough" % p,
                "evidence_file": "/verif/evidence/%s.json" % p,
                "replay_cmd_template": "./check %s --replay {path}" % p,
                "engine": "ticcmon",
                "level_claimed": {"category": c["cat"], "text": c["text"], "design_ref": "DESIGN.md section 5, " + p},
                "level_note": c["note"] or "Trusts NumPy and the harness oracles.",
                "technique": c["tech"],
            })
        else:
            man["not_applicable"].append({"property_id": p, "reason": "check not built yet in this round (planned: %s)" % c["tech"]})
    with open(os.path.join(HERE, "MANIFEST.json"), "w") as f:
        json.dump(man, f, indent=1)
        f.write("\n")
    print("MANIFEST.json: %d checks, %d not_applicable" % (len(man["checks"]), len(man["not_applicable"])))


if __name__ == "__main__":
    main()
