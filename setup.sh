#!/bin/bash
# Offline set-up: three pure-Python wheels beside the repository's interpreter.
here="$(cd "$(dirname "${BASH_SOURCE[0]}")" && pwd)"
if [ ! -d "$here/.deps/icontract" ] || [ ! -d "$here/.deps/mpmath" ] || [ ! -d "$here/.deps/deal" ]; then
  PIP_NO_INDEX=1 /venv/bin/pip install -q --no-index --find-links /opt/veriftools/wheels \
      --target "$here/.deps" icontract deal mpmath || exit 1
fi
mkdir -p "$here/evidence" "$here/replays"
echo "setup ok"
