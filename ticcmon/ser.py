"""JSON (de)serialisation that keeps NumPy arrays and scalars bit-exact."""
import base64
import io
import json

import numpy as np


def _enc(o):
    if isinstance(o, np.ndarray):
        buf = io.BytesIO()
        np.save(buf, o, allow_pickle=False)
        return {"__nd__": base64.b64encode(buf.getvalue()).decode("ascii"),
                "shape": list(o.shape), "dtype": str(o.dtype)}
    if isinstance(o, np.generic):
        return {"__np__": str(o.dtype), "v": _enc(np.asarray(o))["__nd__"]}
    if isinstance(o, float):
        if o != o or o in (float("inf"), float("-inf")):
            return {"__f__": repr(o)}
        return o
    if isinstance(o, (str, int, bool)) or o is None:
        return o
    if isinstance(o, tuple):
        return {"__tuple__": [_enc(x) for x in o]}
    if isinstance(o, (list,)):
        return [_enc(x) for x in o]
    if isinstance(o, dict):
        return {str(k): _enc(v) for k, v in o.items()}
    if isinstance(o, (set, frozenset)):
        return [_enc(x) for x in sorted(o)]
    return {"__repr__": repr(o)}


def _dec(o):
    if isinstance(o, list):
        return [_dec(x) for x in o]
    if isinstance(o, dict):
        if "__nd__" in o:
            return np.load(io.BytesIO(base64.b64decode(o["__nd__"])), allow_pickle=False)
        if "__np__" in o:
            a = np.load(io.BytesIO(base64.b64decode(o["v"])), allow_pickle=False)
            return a[()]
        if "__f__" in o:
            return float(o["__f__"])
        if "__tuple__" in o:
            return tuple(_dec(x) for x in o["__tuple__"])
        if "__repr__" in o and len(o) == 1:
            return o["__repr__"]
        return {k: _dec(v) for k, v in o.items()}
    return o


def dumps(o, **kw):
    return json.dumps(_enc(o), **kw)


def loads(s):
    return _dec(json.loads(s))


def plain(o, maxlen=40):
    """Human-readable rendering for evidence samples (arrays abbreviated, no NaN literals)."""
    if isinstance(o, np.ndarray):
        flat = o.ravel()
        if flat.size <= maxlen:
            return {"array": [plain(x) for x in flat.tolist()], "shape": list(o.shape), "dtype": str(o.dtype)}
        return {"array_head": [plain(x) for x in flat[:maxlen].tolist()], "shape": list(o.shape), "dtype": str(o.dtype)}
    if isinstance(o, np.generic):
        return plain(o.item())
    if isinstance(o, float):
        if o != o or o in (float("inf"), float("-inf")):
            return repr(o)
        return o
    if isinstance(o, (str, int, bool)) or o is None:
        return o
    if isinstance(o, (list, tuple)):
        if len(o) > maxlen:
            return [plain(x) for x in o[:maxlen]] + ["...(%d more)" % (len(o) - maxlen)]
        return [plain(x) for x in o]
    if isinstance(o, dict):
        return {str(k): plain(v) for k, v in o.items()}
    return repr(o)
