"""Traced end-to-end runs of the real front ends and the offline oracles over what was recorded."""
import inspect
import math
import numbers
import os
import random
import traceback

import numpy as np

from ticcmon import instrument
from ticcmon.instrument import REC, PLAN
from ticcmon.oracles import labelling as lab
from ticcmon.oracles import gauss, linalg, metrics, repop, stack, toeplitz as tz
from ticcmon.oracles import stats as ostats
from ticcmon.workloads import data as wd


class Run:
    pass


BETA_BUFFERS = {}


def classify_exception(e):
    """(tag, expected?) for an exception that ended a run."""
    tb = traceback.extract_tb(e.__traceback__)
    root = os.path.realpath(os.environ.get("FAST_TICC_REPO", "/repo"))
    repo_frames = [f for f in tb if os.path.realpath(f.filename).startswith(root)]
    inner = tb[-1]
    where = repo_frames[-1].name if repo_frames else "?"
    tname = type(e).__name__
    msg = str(e)
    expected = False
    if tname == "RoundBudgetExceeded":
        return "RoundBudgetExceeded@harness:" + msg[:80], True
    if "sklearn" in inner.filename and tname in ("ValueError",):
        expected = True           # mixture model refuses the data (too few windows, degenerate components)
    elif tname == "AssertionError" and "at least one point" in msg:
        expected = True           # library's own empty-cluster assertion
    elif tname == "LinAlgError":
        expected = True           # eigh on a non-finite covariance (singleton + unbiased)
    elif tname == "RuntimeError" and "donor" in msg.lower():
        expected = True
    elif tname == "ValueError" and ("infs or NaNs" in msg or "NaN" in msg) and "sklearn" in "".join(f.filename for f in tb):
        expected = True
    tag = "%s@%s:%s" % (tname, where, msg[:60].replace("\n", " "))
    return tag, expected


def _biased_form(case):
    """The estimator flag in the form the case asks for (bool, NumPy bool, int)."""
    form = case.get("biased_form", "bool")
    b = bool(case["biased"])
    if form == "np.bool":
        return np.bool_(b)
    if form == "int":
        return int(b)
    return b


def stacked_reference(data, W):
    if isinstance(data, (list, tuple)):
        parts = [stack.stack_ref(np.asarray(s), W) for s in data]
        return np.vstack(parts), [p.shape[0] for p in parts]
    X = stack.stack_ref(np.asarray(data), W)
    return X, [X.shape[0]]


def run_case(case):
    """Execute one traced run described by `case` (see workloads.data) and return a Run record."""
    import fast_ticc
    instrument.install_all()
    instrument.reset_run()
    run = Run()
    run.case = case
    data = wd.make_data(case["data"])
    joint = case["front"] == "joint"
    W, K = case["W"], case["K"]
    run.W, run.K = W, K
    run.joint = joint
    run.data = data
    series = data if isinstance(data, list) else [data]
    run.N = int(np.asarray(series[0]).shape[1])
    try:
        run.X, run.lens = stacked_reference(data, W)
    except ValueError:
        run.X, run.lens = None, None
    n_points = sum(run.lens) if run.lens else 0
    run.beta = wd.make_beta(case["beta"], n_points)
    if case.get("beta_buffer") is not None:
        # history: the caller re-uses one array object for several calls and refills it in place between them
        buf = BETA_BUFFERS.setdefault((case["beta_buffer"], n_points), np.zeros(n_points))
        buf[:] = np.asarray(run.beta, dtype=np.float64)
        run.beta = buf
    run.lam = wd.make_lambda(case["lam"], run.N * W)
    run.beta_before = np.array(run.beta, copy=True) if isinstance(run.beta, np.ndarray) else run.beta
    run.lam_before = np.array(run.lam, copy=True) if isinstance(run.lam, np.ndarray) else run.lam
    if case.get("init"):
        PLAN["init_labels"] = wd.make_init_labels(case["init"])
    PLAN["round_budget"] = int(case["limit"])
    run.scripted = bool(case.get("label_script"))
    if run.scripted:
        PLAN["label_script"] = wd.make_label_script(case["label_script"], n_points, K)
        PLAN["label_script_then"] = case["label_script"].get("then")
    for k, v in (case.get("task_plan") or {}).items():
        PLAN["task"][int(k)] = v
    if case.get("start_method"):
        # a user whose program selected another start method for worker processes (the one-worker pool is a real process too)
        import multiprocessing
        multiprocessing.set_start_method(case["start_method"], force=True)
    if case.get("mp"):
        os.environ["CUPCAKE_ENABLE_MULTIPROCESSING"] = "1"
    else:
        os.environ.pop("CUPCAKE_ENABLE_MULTIPROCESSING", None)
    np.random.seed(case["rng_seed"])
    random.seed(case["rng_seed"])
    itype = {"np.int64": np.int64, "np.int32": np.int32, "np.uint8": np.uint8}.get(case.get("int_form"), int)
    kw = dict(window_size=itype(W), num_clusters=itype(K), sparsity_weight=run.lam, label_switching_cost=run.beta,
              iteration_limit=itype(case["limit"]), min_meaningful_covariance=case["eps"], num_processors=itype(case.get("nproc", 1)),
              min_cluster_size=itype(case["m"]), biased_covariance=_biased_form(case))
    run.result = None
    run.exc = None
    arg = data
    if joint:
        cont = case.get("container", "list")
        if cont == "tuple":
            arg = tuple(data)
        elif cont == "generator":
            arg = (s for s in data)
    cov = None
    if case.get("coverage"):
        cov = instrument.LineCoverage(os.path.join(os.environ.get("FAST_TICC_REPO", "/repo"), "src", "fast_ticc"))
        cov.start()
    def the_call():
        import warnings
        with instrument.quiet(), warnings.catch_warnings():
            if case.get("warnings"):
                warnings.simplefilter(case["warnings"])     # the caller's warning filters ("ignore", "always", "default", "once")
            if joint:
                return fast_ticc.ticc_joint_labels(arg, **kw)
            return fast_ticc.ticc_labels(arg, **kw)
    PLAN["gmm_max_iter"] = case.get("gmm_max_iter")
    try:
        if case.get("in_thread"):
            # the caller makes the call from a worker thread of its own program
            import threading
            box = {}

            def body():
                try:
                    box["result"] = the_call()
                except BaseException as e_:
                    box["exc"] = e_
            th = threading.Thread(target=body, name="caller-thread")
            th.start()
            th.join()
            if "exc" in box:
                raise box["exc"]
            run.result = box.get("result")
        else:
            run.result = the_call()
    except (Exception, KeyboardInterrupt, SystemExit) as e:  # classified by the caller (the last two only ever come from injected faults)
        run.exc = e
        run.exc_tag, run.exc_expected = classify_exception(e)
    finally:
        PLAN["gmm_max_iter"] = None
        if cov is not None:
            cov.stop()
        if case.get("start_method"):
            import multiprocessing
            multiprocessing.set_start_method("fork", force=True)
    run.cov = cov
    run.phases = list(REC.phases)
    run.label_steps = list(REC.label_steps)
    run.final = list(REC.final)
    run.tasks = list(REC.tasks)
    run.completions = list(REC.completions)
    run.task_results = dict(REC.task_results)
    run.alias_issues = list(REC.alias_issues)
    run.init_labels = REC.init_labels
    run.stacked_seen = REC.data
    run.ch_data = REC.ch_data
    run.phase_exc = getattr(REC, "phase_exc", None)
    return run


# ----------------------------------------------------------------------------------------- oracles

class Issues:
    def __init__(self):
        self.items = []     # (prop, msg)
        self.known = []     # (prop, key, msg)
        self.counts = {}

    def v(self, prop, msg):
        self.items.append((prop, msg))

    def k(self, prop, key, msg):
        self.known.append((prop, key, msg))

    def c(self, name, n=1):
        self.counts[name] = self.counts.get(name, 0) + n

    def m(self, name, v):
        name = "max_" + name
        self.counts[name] = max(self.counts.get(name, v), v)


def _same_value(a, b):
    if isinstance(a, np.ndarray) or isinstance(b, np.ndarray):
        return isinstance(a, np.ndarray) and isinstance(b, np.ndarray) and a.dtype == b.dtype and instrument._arr_equal(a, b)
    return type(a) is type(b) and (a == b or (a != a and b != b))


def template_ref(lens):
    t = np.ones(sum(lens))
    e = 0
    for L in lens[:-1]:
        e += L
        t[e - 1] = 0.0
    return t


def bind_task(task):
    """Bind recorded task arguments to the optimiser's parameter names."""
    try:
        sig = inspect.signature(task["func"])
        b = sig.bind(*task["args"], **task["kwds"])
        b.apply_defaults()
        return dict(b.arguments)
    except Exception:
        return None


def check_result_structure(I, run):
    """C04: shape of the result object only (independent of every other oracle).  Returns the unpadded labels."""
    res = run.result
    W, K, N = run.W, run.K, run.N
    NW = N * W
    joint = run.joint
    series = run.data if isinstance(run.data, list) else [run.data]
    front = (W - 1) // 2
    back = (W - 1) - front
    if joint:
        lab_lists = res.point_labels
        ok_outer = isinstance(lab_lists, (list, tuple)) and len(lab_lists) == len(series)
        if not ok_outer:
            I.v("C04", "joint result has %r label lists for %d series" % (len(lab_lists) if hasattr(lab_lists, "__len__") else None, len(series)))
            lab_lists = []
    else:
        lab_lists = [res.point_labels]
    unp = []
    for si, (L, s) in enumerate(zip(lab_lists, series)):
        T = np.asarray(s).shape[0]
        L = list(L)
        if len(L) != T:
            I.v("C04", "series %d: %d labels for %d rows" % (si, len(L), T))
            continue
        if any(l != -1 for l in L[:front]) or any(l != -1 for l in L[T - back:]):
            I.v("C04", "series %d: the first %d / last %d labels are not all -1 (W=%d)" % (si, front, back, W))
        mid = L[front:T - back]
        if any(not (isinstance(l, numbers.Integral) and 0 <= l < K) for l in mid):
            I.v("C04", "series %d: a label inside the margin is not an integer in [0,%d) (W=%d, margin %d/%d)" % (si, K, W, front, back))
        unp.extend(mid)
    mrfs = res.markov_random_fields
    if len(mrfs) != K or any(np.shape(mm) != (NW, NW) for mm in mrfs):
        I.v("C04", "result has %d MRFs of shapes %s, expected %d of (%d,%d)" % (len(mrfs), [np.shape(mm) for mm in mrfs][:3], K, NW, NW))
    if res.num_clusters != K or res.window_size != W:
        I.v("C04", "result echoes K=%r W=%r, caller passed K=%d W=%d" % (res.num_clusters, res.window_size, K, W))
    I.c("results_checked")
    return unp, mrfs


def evaluate(run, want=None):
    """All oracles over one completed traced run.  Returns Issues."""
    I = Issues()
    case = run.case
    W, K, N = run.W, run.K, run.N
    NW = N * W
    X = run.X
    lens = run.lens
    Tp = X.shape[0]
    res = run.result
    joint = run.joint
    beta_vec = lab.beta_vector(np.asarray(run.beta_before, dtype=np.float64), Tp)
    nseries = len(lens)
    phases = run.phases
    seq = [p["phase"] for p in phases]
    R = seq.count("label")
    I.counts["rounds"] = R
    limit = case["limit"]
    eps_floor = float(case["eps"])
    biased = bool(case["biased"])
    m = case["m"]

    # ---- the stacked array handed to the main loop (C10; C07(b) for joint runs)
    if run.stacked_seen is not None:
        seen = np.asarray(run.stacked_seen)
        if seen.shape != X.shape or not np.array_equal(stack.bits(seen), stack.bits(X)):
            I.v("C07" if joint and nseries > 1 else "C10", "the stacked array handed to the main loop differs from the per-series window stacking of the input")
            I.v("C10", "stacked array differs from the reference stacking")
            if run.result is not None:
                check_result_structure(I, run)
            return I          # every other oracle is phrased over the reference stacking
        I.c("stacked_arrays_checked")

    # ---- argument pass-through at the first boundary
    if phases:
        a = phases[0]["inp"]["args"]
        if a is not None:
            if not _same_value(a["sparsity_weight"], run.lam_before):
                I.v("C12", "sparsity weight reaching the algorithm (%r) is not the caller's (%r)" % (type(a["sparsity_weight"]).__name__, type(run.lam_before).__name__))
            if a["window_size"] != W or a["num_clusters"] != K:
                I.v("C04", "window size / cluster count reaching the algorithm (%r,%r) differ from the caller's (%r,%r)" % (a["window_size"], a["num_clusters"], W, K))
                I.v("C12", "window size reaching the algorithm differs from the caller's")
            if bool(a["biased_covariance"]) != biased:
                I.v("C12", "estimator flag reaching the algorithm (%r) is not the caller's (%r)" % (a["biased_covariance"], biased))
            if a["iteration_limit"] != limit:
                I.v("C09", "iteration limit reaching the algorithm (%r) is not the caller's (%r)" % (a["iteration_limit"], limit))
            if a["min_cluster_size"] != m:
                I.v("C08", "min_cluster_size reaching the algorithm (%r) is not the caller's (%r)" % (a["min_cluster_size"], m))
            if not _same_value(a["min_meaningful_covariance"], case["eps"]):
                I.v("C03", "covariance floor reaching the algorithm (%r) is not the caller's (%r)" % (a["min_meaningful_covariance"], case["eps"]))
            if not _same_value(a["label_switching_cost"], run.beta_before):
                for p in ("C06", "C07") if joint else ("C06",):
                    I.v(p, "switching cost in the argument bundle (%r) is not the caller's" % (type(a["label_switching_cost"]).__name__,))
            I.c("passthrough_checked")

    # ---- C09 trace grammar (complete runs only: an aborted run has a truncated trace)
    complete = res is not None
    if run.exc is not None and type(run.exc).__name__ == "RoundBudgetExceeded":
        I.v("C09", "the run went beyond its iteration limit: %s (aborted by the harness after %d rounds)" % (run.exc, R))
    # "scripted" from here on: the LAST labelling of the run was forced by the harness (the final-result oracles on cost and
    # optimality do not apply then); per-round oracles look at each step's own flag
    scripted = bool(getattr(run, "scripted", False)) and (not run.label_steps or bool(run.label_steps[-1].get("scripted", True)))
    if getattr(run, "scripted", False):
        I.c("scripted_runs")
        if not scripted:
            I.c("runs_with_a_forced_history_then_natural_rounds")
            I.m("longest_forced_history_before_natural_rounds", sum(1 for s_ in run.label_steps if s_.get("scripted")))
    exp = []
    for i in range(R):
        exp += (["repop"] if i > 0 else []) + ["stats", "opt", "label"]
    if not complete:
        exp_more = exp + ["repop", "stats", "opt", "label"] if R > 0 else ["stats", "opt", "label"]
        if seq != exp_more[:len(seq)]:
            I.v("C09", "phase order %s of the aborted run is not a prefix of (stats,opt,label)(repop,stats,opt,label)*" % seq[:12])
    if complete and seq != exp:
        I.v("C09", "phase order %s is not (stats,opt,label)(repop,stats,opt,label)*" % seq[:12])
    if complete and not (1 <= R <= limit):
        I.v("C09", "%d fit-and-relabel rounds with iteration_limit=%d" % (R, limit))
    label_events = [p for p in phases if p["phase"] == "label"]
    labseq = [[int(x) for x in p["out"]["labels"]] for p in label_events]
    if complete and R >= 1 and R < limit:
        if not (R >= 2 and labseq[-1] == labseq[-2]):
            I.v("C09", "stopped after %d < %d rounds although the last two labellings differ" % (R, limit))
        I.c("early_stops")
    if R >= 3 and any(labseq[i] == labseq[i - 1] for i in range(1, R - 1)):
        I.v("C09", "rounds continued after two consecutive rounds produced identical labellings")
    if complete and R == limit:
        I.c("limit_stops")
    # state threading: each phase receives the object returned by the previous one
    for a_, b_ in zip(phases[:-1], phases[1:]):
        if b_["inp_obj"] is not a_["out_obj"]:
            I.v("C09", "phase %s/round %d did not receive the state returned by %s" % (b_["phase"], b_["round"], a_["phase"]))
            break
    if phases and run.init_labels is not None:
        first = phases[0]["inp"]["labels"]
        if first is None or [int(x) for x in first] != [int(x) for x in run.init_labels]:
            I.v("C09", "labelling changed between the initial labelling and the statistics of round 0")
    for p in phases:
        if p["phase"] == "repop":
            sizes = [len(mm) for mm in p["inp"]["members"]]
            changed = [int(x) for x in p["out"]["labels"]] != [int(x) for x in p["inp"]["labels"]]
            if not any(s < 2 for s in sizes):
                if changed:
                    I.v("C09", "repopulation changed the labelling in round %d although every cluster had >= 2 points" % p["round"])
            else:
                I.c("repop_events")
            # C08 on the in-run call
            spreads = []
            ok_sp = True
            for arrs in p["inp"]["arrays"]:
                cc = arrs["computed_covariance"]
                if cc is None or not np.all(np.isfinite(cc)):
                    ok_sp = False
                    spreads.append(0.0)
                else:
                    spreads.append(float(np.linalg.norm(cc)))
            if not ok_sp:
                spreads = [0.0] * len(spreads)
            # the spread that ranks the donors is that of each cluster's covariance - the inverse of its MRF - computed here
            # independently of the copy the state carries (when every MRF is there and well conditioned; near-ties are ties)
            rtol_sp = 0.0
            try:
                ths_in = [arrs["train_inverse"] for arrs in p["inp"]["arrays"]]
                if all(t_ is not None and np.all(np.isfinite(t_)) for t_ in ths_in):
                    ths_in = [np.atleast_2d(np.asarray(t_, dtype=np.float64)) for t_ in ths_in]
                    if all(t_.shape == (NW, NW) and np.linalg.cond(t_) < 1e8 for t_ in ths_in):
                        spreads = [float(np.linalg.norm(np.linalg.inv((t_ + t_.T) / 2))) for t_ in ths_in]
                        rtol_sp = 1e-6
                        I.c("repop_calls_ranked_by_independent_spreads")
            except np.linalg.LinAlgError:
                pass
            for msg in repop.check_repopulation([int(x) for x in p["inp"]["labels"]], [int(x) for x in p["out"]["labels"]], K, m, spreads, None,
                                                spread_rtol=rtol_sp)[:2]:
                I.v("C08", "in-run repopulation (round %d): %s" % (p["round"], msg))
            I.c("repop_calls_checked")

    # ---- C13 per phase: partition invariant, input unchanged, alias monitor
    for p in phases:
        for which in ("inp", "out"):
            s = p[which]
            if s["labels"] is not None and s["nclusters"] == K:
                expm = [[] for _ in range(K)]
                bad = False
                for i, l in enumerate(s["labels"]):
                    if not (0 <= l < K):
                        bad = True
                        break
                    expm[int(l)].append(i)
                if bad or s["members"] != expm:
                    I.v("C13", "state %s %s/round %d: member lists are not the sorted points of each label" % (
                        "handed to" if which == "inp" else "returned by", p["phase"], p["round"]))
            if s["nclusters"] != K:
                I.v("C13", "state at %s/round %d has %d clusters, K=%d" % (p["phase"], p["round"], s["nclusters"], K))
        d = instrument.diff_snap(p["inp"], p["inp_after"])
        if d:
            I.v("C13", "phase %s/round %d altered the state it was given: %s" % (p["phase"], p["round"], d[:4]))
        I.c("phase_boundaries_checked")
    for msg in run.alias_issues[:3]:
        I.v("C13", "alias monitor: " + msg)

    # ---- per round: C12 statistics + task arguments, C03 MRFs, C02 certificates, C05 tables
    precondition_ok = True
    for r in range(R):
        ev = {p["phase"]: p for p in phases if p["round"] == r}
        st = ev.get("stats")
        op = ev.get("opt")
        lb = ev.get("label")
        if st is None or op is None or lb is None:
            continue
        labels_r = [int(x) for x in st["out"]["labels"]]
        if labels_r != [int(x) for x in st["inp"]["labels"]]:
            I.v("C12", "statistics phase changed the labelling in round %d" % r)
        for k in range(K):
            mem = [i for i, l in enumerate(labels_r) if l == k]
            if not mem:
                continue
            Xk = X[mem]
            mu, S = ostats.sample_stats(Xk, 0 if biased else 1)
            got_mu = st["out"]["arrays"][k]["stacked_data_mean"]
            got_S = st["out"]["arrays"][k]["empirical_covariance"]
            if got_mu is None or got_S is None:
                I.v("C12", "round %d cluster %d: statistics missing after the statistics phase" % (r, k))
                continue
            got_S = np.atleast_2d(got_S)
            scale = float(np.max(np.abs(Xk))) if Xk.size else 1.0
            if got_mu.shape != mu.shape or not np.allclose(got_mu, mu, rtol=1e-10, atol=1e-12 * max(scale, 1e-300)):
                I.v("C12", "round %d cluster %d (%d windows): mean differs from the sample mean of its own windows (max dev %.3g)" % (
                    r, k, len(mem), float(np.max(np.abs(got_mu - mu))) if got_mu.shape == mu.shape else -1))
            finite = np.isfinite(S)
            if got_S.shape != S.shape or not np.array_equal(np.isnan(got_S), np.isnan(S)):
                I.v("C12", "round %d cluster %d: covariance shape/NaN pattern differs from the %s estimator" % (r, k, "biased" if biased else "unbiased"))
            elif finite.all():
                # rounding of a two-pass estimate: the mean is exact to eps*|x|, so the centred data carry an error eps*scale
                # (entry by entry, with each sensor's own magnitude: sensors of one series may differ by many orders of magnitude)
                Dk = np.abs(np.asarray(Xk, dtype=np.float64) - mu[None, :])
                xcol = np.max(np.abs(np.asarray(Xk, dtype=np.float64)), axis=0)
                # (a column that is constant within the cluster is centred to rounding residue of the order eps*|x| - or to exact
                # zeros, depending on the order in which the mean was summed: never less than that residue in the bound)
                dcol = np.maximum(np.max(Dk, axis=0), 8 * gauss.EPS * xcol)
                sd = np.sqrt(np.abs(np.diag(S)))
                atol = 1e-9 * np.outer(sd, sd) + 256 * gauss.EPS * (np.outer(xcol, dcol) + np.outer(dcol, xcol)) + 1e-300
                if not np.all(np.abs(got_S - S) <= atol + 1e-9 * np.abs(S)):
                    I.v("C12", "round %d cluster %d (%d windows): covariance is not X^T X/(n-%d) of its own windows (max dev %.3g, scale %.3g)" % (
                        r, k, len(mem), 0 if biased else 1, float(np.max(np.abs(got_S - S))), float(np.max(np.abs(S)))))
            if not finite.all():
                precondition_ok = False
            I.c("cluster_statistics_checked")
        # tasks of this round: the K covariances of the statistics phase must each have been handed to the public optimiser exactly
        # once (in whatever order), with the caller's lambda, W and N
        tasks = run.tasks[r * K:(r + 1) * K]
        task_of_cluster = {}
        if len(run.tasks) >= (r + 1) * K and len(tasks) == K:
            # two observations per task: the arguments as submitted to the pool (parent side; only meaningful when the callable IS
            # the public optimiser entry point) and what the entry point actually received inside the worker (attached to the result)
            bound = []
            recv = []
            for k, t in enumerate(tasks):
                fn = t["func"]
                direct = getattr(fn, "__name__", "") == "admm_optimize_theta" and "fast_ticc.admm" in getattr(fn, "__module__", "")
                b = bind_task(t) if direct else None
                if direct and b is None:
                    I.v("C12", "round %d task %d: arguments do not bind to the optimiser's signature" % (r, k))
                if not direct:
                    I.c("tasks_submitted_through_another_callable")
                bound.append(b)
                tr_ = run.task_results.get(r * K + k)
                rc_ = getattr(tr_, "_ticcmon", None) if tr_ is not None and not isinstance(tr_, BaseException) else None
                got = (rc_ or {}).get("received")
                if got is not None and len(got) == 1 and not got[0].get("unbound"):
                    recv.append(got[0])
                    I.c("optimiser_receipts_observed")
                else:
                    recv.append(None)
                    if got is not None and len(got) != 1:
                        I.c("tasks_with_%s_entry_point_calls" % ("no" if len(got) == 0 else "several"))
            seen = [recv[j] if recv[j] is not None else bound[j] for j in range(K)]
            free = [j for j, b in enumerate(seen) if b is not None]
            all_seen = len(free) == K
            if not all_seen:
                I.c("rounds_with_unobserved_task_arguments")
            for k in range(K):
                S_stat = st["out"]["arrays"][k]["empirical_covariance"]
                if S_stat is None:
                    continue
                # prefer the task in cluster position, else any unclaimed task that received exactly this array
                cand = ([k] if k in free else []) + [j for j in free if j != k]
                hit = None
                for j in cand:
                    if instrument._arr_equal(np.asarray(seen[j].get("empirical_covariance")), S_stat):
                        hit = j
                        break
                if hit is None:
                    if all_seen:
                        I.v("C12", "round %d: no optimisation task received cluster %d's covariance" % (r, k))
                    continue
                free.remove(hit)
                task_of_cluster[k] = r * K + hit
                for what, b in (("submitted with", bound[hit]), ("received by the optimiser in", recv[hit])):
                    if b is None:
                        continue
                    lam_ok = _same_value(b.get("sparsity_weight"), run.lam_before) or (what == "submitted with" and b.get("sparsity_weight") is run.lam)
                    if not lam_ok:
                        I.v("C12", "round %d, sparsity weight %s the task for cluster %d is not the caller's (%s)" % (
                            r, what, k, type(b.get("sparsity_weight")).__name__))
                    if b.get("window_size") != W or b.get("num_data_series") != N:
                        I.v("C12", "round %d, window size / sensor count %s the task for cluster %d: (%r,%r) != (%d,%d)" % (
                            r, what, k, b.get("window_size"), b.get("num_data_series"), W, N))
                I.c("task_arguments_checked")
            if any(j != k_ - r * K + r * K and False for k_, j in task_of_cluster.items()):
                pass
            if any(task_of_cluster.get(k) != r * K + k for k in task_of_cluster):
                I.c("rounds_with_tasks_not_in_cluster_order")
        elif len(run.tasks) == 0:
            I.c("tasks_not_observed")        # the pool is not driven through apply_async: nothing to decide from
        elif r == 0 or len(run.tasks) < (r + 1) * K:
            msg = "round %d completed its optimisation phase but only %d tasks were submitted in %d rounds (K=%d): a cluster was not re-optimised" % (
                r, len(run.tasks), r + 1, K)
            I.v("C12", msg)
            I.v("C09", msg)
        # MRFs leaving the optimisation phase
        for k in range(K):
            arrs = op["out"]["arrays"][k]
            th = arrs["train_inverse"]
            S_k = st["out"]["arrays"][k]["empirical_covariance"]
            if S_k is None or not np.all(np.isfinite(S_k)):
                precondition_ok = False
                I.c("precondition_not_met_clusters")
                continue
            tr = run.task_results.get(task_of_cluster.get(k, r * K + k))
            raw_c = getattr(tr, "theta", None) if tr is not None and not isinstance(tr, BaseException) else None
            if th is None:
                I.v("C03", "round %d cluster %d has no MRF after the optimisation phase" % (r, k))
                continue
            th = np.atleast_2d(th)
            if raw_c is not None:
                raw = tz.full_from_upper(NW, np.asarray(raw_c, dtype=np.float64)) if np.asarray(raw_c).shape == (NW * (NW + 1) // 2,) else None
                if raw is not None:
                    if eps_floor > 0:
                        small = (np.abs(th) > 0) & (np.abs(th) < eps_floor)
                        if small.any():
                            I.v("C03", "round %d cluster %d: %d MRF entries have magnitude strictly between 0 and the floor %g" % (r, k, int(small.sum()), eps_floor))
                        keep = np.abs(raw) >= eps_floor
                        if th.shape != raw.shape or not np.array_equal(stack.bits(th[keep]), stack.bits(raw[keep])):
                            I.v("C03", "round %d cluster %d: an entry of magnitude >= floor is not exactly what the optimiser produced" % (r, k))
                        I.c("floor_checks")
                    else:
                        if th.shape != raw.shape or not np.array_equal(stack.bits(th), stack.bits(raw)):
                            I.v("C09", "round %d: MRF of cluster %d is not the result of the optimisation task that received its covariance" % (r, k))
                            # ... and then it is (almost surely) not the optimum for this cluster's covariance either
                            rec_ = getattr(tr, "_ticcmon", None)
                            if rec_ is not None and rec_.get("stopped") and th.shape == (NW, NW) and np.all(np.isfinite(th)):
                                cert_ = tz.kkt_certificate(tz.upper_from_full(th), np.atleast_2d(S_k), run.lam_before, N, W, rec_["abstol"], rec_["reltol"])
                                if not cert_["skipped"] and (cert_["ratio_kkt"] > 1.0 or cert_["ratio_toeplitz"] > 1.0):
                                    I.v("C02", "round %d: the MRF carried by cluster %d fails the optimality certificate for that cluster's own "
                                               "covariance (kkt ratio %.3g): it belongs to another task" % (r, k, cert_["ratio_kkt"]))
                    # C02 certificate on this task
                    rec = getattr(tr, "_ticcmon", None)
                    if rec is not None and rec.get("stopped"):
                        cert = tz.kkt_certificate(np.asarray(raw_c, dtype=np.float64), np.atleast_2d(S_k), run.lam_before, N, W,
                                                  rec["abstol"], rec["reltol"])
                        if cert["skipped"]:
                            I.c("task_certificates_skipped")
                        else:
                            I.c("task_certificates")
                            I.m("task_ratio_x1000", int(min(cert["ratio_kkt"], 1e6) * 1000))
                            if cert["ratio_kkt"] > 1.0 or cert["ratio_toeplitz"] > 1.0:
                                msg = ("round %d cluster %d: the MRF fails the optimality certificate against this round's covariance of its own "
                                       "cluster (kkt ratio %.3g, toeplitz ratio %.3g)" % (r, k, cert["ratio_kkt"], cert["ratio_toeplitz"]))
                                I.v("C09", msg)
                                I.v("C02", msg)
                    elif rec is None:
                        I.c("task_exit_record_missing")
                    else:
                        I.c("tasks_budget_exhausted_no_claim")
            if eps_floor == 0:
                if not np.all(np.isfinite(th)):
                    I.v("C03", "round %d cluster %d: MRF has non-finite entries" % (r, k))
                elif not linalg.is_symmetric_exact(th):
                    I.v("C03", "round %d cluster %d: MRF is not exactly symmetric" % (r, k))
                elif not linalg.is_pd(th, I.counts):
                    I.v("C03", "round %d cluster %d: MRF is not positive definite (min eig %.3g)" % (r, k, float(np.linalg.eigvalsh(th).min())))
                else:
                    ld = op["out"]["logdet"][k]
                    ref_ld = float(np.linalg.slogdet(th)[1])
                    if ld is None or not np.isfinite(ld) or abs(float(ld) - ref_ld) > 1e-9 * max(1.0, abs(ref_ld)) + 1e-9:
                        I.v("C03", "round %d cluster %d: stored log-determinant %r, slogdet gives %r" % (r, k, ld, ref_ld))
                cc = arrs["computed_covariance"]
                if cc is None or not np.all(np.isfinite(cc)):
                    I.v("C03", "round %d cluster %d: computed covariance missing or non-finite" % (r, k))
                I.c("mrfs_checked")
        # the table that drove this round's labelling
        steps_r = [s_ for s_ in run.label_steps if s_.get("round") == r]
        whole = [s_ for s_ in steps_r if np.asarray(s_["table"]).shape[0] == Tp]
        if len(steps_r) != 1 or len(whole) != 1:
            I.c("rounds_whose_labelling_was_not_one_whole_kernel_call")     # e.g. a block-wise driver: per-call oracles do not apply
        if len(steps_r) == 1 and len(whole) == 1 and precondition_ok:
            step = whole[0]
            table = -np.asarray(step["table"], dtype=np.float64)
            mus = [a_["stacked_data_mean"] for a_ in lb["inp"]["arrays"]]
            ths = [a_["train_inverse"] for a_ in lb["inp"]["arrays"]]
            usable = all(mu is not None and th is not None and np.all(np.isfinite(th)) for mu, th in zip(mus, ths))
            if usable and all(linalg.is_pd(np.atleast_2d(th)) for th in ths) and all(np.linalg.cond(np.atleast_2d(th)) < 1e13 for th in ths):
                ths2 = [np.atleast_2d(th) for th in ths]
                ref = gauss.gauss_table(X, mus, ths2)
                bound = gauss.table_bound(X, mus, ths2)
                if table.shape != ref.shape:
                    I.v("C05", "round %d: likelihood table has shape %s, expected %s" % (r, table.shape, ref.shape))
                else:
                    dev = np.abs(table - ref)
                    if not np.all(np.isfinite(table)):
                        I.v("C05", "round %d: likelihood table has %d non-finite entries although every MRF is positive definite" % (r, int((~np.isfinite(table)).sum())))
                    elif np.any(dev > bound):
                        i, k = np.unravel_index(np.argmax(dev / bound), dev.shape)
                        I.v("C05", "round %d: table[%d,%d]=%.12g, Gaussian log-density is %.12g (dev %.3g > bound %.3g)" % (
                            r, i, k, table[i, k], ref[i, k], dev[i, k], bound[i, k]))
                    I.c("table_entries_checked", int(table.size))
                    I.m("table_dev_over_bound_x1000", int(float(np.max(dev / bound)) * 1000) if np.all(np.isfinite(dev)) else 10 ** 9)
            else:
                I.c("tables_skipped_not_pd_or_illconditioned")
            # C01 on the call itself
            C = np.asarray(step["table"], dtype=np.float64)
            if np.all(np.isfinite(C)) and not step.get("scripted"):
                b = step["beta"]
                labels = step["labels"]
                okl = len(labels) == C.shape[0] and all(isinstance(l, numbers.Integral) and 0 <= l < C.shape[1] for l in labels)
                if not okl:
                    I.v("C01", "round %d: labelling step returned invalid labels" % r)
                else:
                    tol = lab.cost_tolerance(C, b)
                    pc = lab.path_cost(C, b, [int(l) for l in labels])
                    opt, _ = lab.forward_viterbi(C, b)
                    if abs(float(step["cost"]) - pc) > tol:
                        I.v("C01", "round %d: reported cost %r is not the cost %r of the returned sequence" % (r, float(step["cost"]), pc))
                    if pc > opt + tol:
                        I.v("C01", "round %d: returned sequence costs %r, optimum is %r" % (r, pc, opt))
                    I.c("label_calls_checked")
                if not step["table_unchanged"] or not step["beta_unchanged"]:
                    I.v("C19", "labelling step modified its cost table or switching-cost argument")
    I.counts["precondition_ok"] = 1 if precondition_ok else 0

    if res is None:
        return I

    unp, mrfs = check_result_structure(I, run)
    ok_labels = len(unp) == Tp and all(isinstance(l, numbers.Integral) and 0 <= l < K for l in unp)
    labs = [int(l) for l in unp] if ok_labels else None
    if labs is not None and labseq:
        if labs != labseq[-1]:
            I.v("C09", "returned labels are not those of the last labelling round")
            if joint:
                I.v("C04", "concatenated per-series labels differ from the labelling of the last round (labels leaked across series)")
        lastout = label_events[-1]["out"]
        if not (res.label_assignment_cost == lastout["cost"] or (res.label_assignment_cost != res.label_assignment_cost and lastout["cost"] != lastout["cost"])):
            I.v("C09", "returned cost %r is not the cost %r of the last labelling round" % (res.label_assignment_cost, lastout["cost"]))
        for k in range(min(K, len(mrfs))):
            th = lastout["arrays"][k]["train_inverse"]
            if th is None or not instrument._arr_equal(np.asarray(mrfs[k]), th):
                I.v("C09", "returned MRF %d is not the one the last round scored against" % k)
        if R < limit and R >= 2:
            last_repop = [p for p in phases if p["phase"] == "repop" and p["round"] == R - 1]
            changed = last_repop and [int(x) for x in last_repop[0]["out"]["labels"]] != [int(x) for x in last_repop[0]["inp"]["labels"]]
            if not changed:
                st_last = [p for p in phases if p["phase"] == "stats" and p["round"] == R - 1][0]
                if [int(x) for x in st_last["out"]["labels"]] != labs:
                    I.v("C09", "early stop without repopulation, but the model was fitted to a labelling different from the one returned")

    if not precondition_ok or labs is None:
        I.c("runs_precondition_not_met" if not precondition_ok else "runs_invalid_labels")
        # even then: a criterion that is not finite although every returned MRF is a finite positive-definite matrix
        try:
            if eps_floor == 0 and all(np.all(np.isfinite(np.atleast_2d(mm))) and linalg.is_pd(np.atleast_2d(mm)) for mm in mrfs) \
                    and not np.isfinite(float(res.bayesian_information_criterion)):
                I.v("C16", "BIC is %r although every returned MRF is positive definite (a cluster's covariance was not finite)" % (res.bayesian_information_criterion,))
        except Exception:
            pass
        return I

    # ---- final model
    # The model the last round fitted and scored against, taken from the phase trace (NOT from whatever object is handed to
    # the metric functions): mean and covariance from the last statistics phase, MRFs from the model the last labelling scored.
    # (only phases up to the last labelling count: anything the library runs afterwards is not "the last round")
    last_label_idx = max([i for i, p in enumerate(phases) if p["phase"] == "label"], default=-1)
    st_last = [p for p in phases[:last_label_idx] if p["phase"] == "stats"]
    if not st_last or not label_events:
        I.c("final_model_not_observed")
        return I
    fit_arrays = st_last[-1]["out"]["arrays"]
    scored = label_events[-1]["inp"]["arrays"]
    if any(a_["stacked_data_mean"] is None or a_["empirical_covariance"] is None for a_ in fit_arrays) or \
            any(a_["train_inverse"] is None for a_ in scored):
        I.c("final_model_not_observed")
        return I
    mus = [a_["stacked_data_mean"] for a_ in fit_arrays]
    covs = [np.atleast_2d(a_["empirical_covariance"]) for a_ in fit_arrays]
    ths = [np.atleast_2d(a_["train_inverse"]) for a_ in scored]
    if run.final:
        fsnap = run.final[0][1]
        same = all(instrument._arr_equal(a_["stacked_data_mean"], m_) and instrument._arr_equal(np.atleast_2d(a_["empirical_covariance"]), c_)
                   and instrument._arr_equal(np.atleast_2d(a_["train_inverse"]), t_)
                   for a_, m_, c_, t_ in zip(fsnap["arrays"], mus, covs, ths)
                   if a_["stacked_data_mean"] is not None and a_["empirical_covariance"] is not None and a_["train_inverse"] is not None)
        if not same:
            I.c("metrics_called_on_a_model_other_than_the_last_round")
    pd_ok = all(np.all(np.isfinite(th)) and linalg.is_pd(th) for th in ths)

    # ---- C03: every float of the result finite
    if eps_floor == 0:
        vals = [res.bayesian_information_criterion, res.label_assignment_cost, res.overall_log_likelihood,
                res.overall_log_likelihood_mean, res.overall_log_likelihood_median] + list(res.all_log_likelihood) + \
            list(res.cluster_log_likelihood_mean) + list(res.cluster_log_likelihood_median)
        if not np.all(np.isfinite(np.asarray(vals, dtype=np.float64))):
            I.v("C03", "result contains non-finite likelihood / cost / criterion values")
        for k, mm in enumerate(mrfs):
            mm = np.atleast_2d(mm)
            if not np.all(np.isfinite(mm)) or not linalg.is_symmetric_exact(mm) or not linalg.is_pd(mm, I.counts):
                I.v("C03", "returned MRF %d is not a finite symmetric positive-definite matrix" % k)
        I.c("result_floats_checked", len(vals))
    if not pd_ok or any(np.linalg.cond(th) > 1e13 for th in ths):
        I.c("runs_final_model_not_pd_or_illconditioned")
        return I

    ref_tab = gauss.gauss_table(X, mus, ths)
    bnd_tab = gauss.table_bound(X, mus, ths)
    ll = np.array([ref_tab[i, l] for i, l in enumerate(labs)])
    bnd = np.array([bnd_tab[i, l] for i, l in enumerate(labs)])
    mb = float(np.max(bnd)) if len(bnd) else 0.0
    all_ll = np.asarray(list(res.all_log_likelihood), dtype=np.float64)
    counts = [labs.count(k) for k in range(K)]
    I.counts["empty_final_clusters"] = sum(1 for c_ in counts if c_ == 0)

    # ---- C06 / C05 result fields
    if len(all_ll) != len(labs):
        I.v("C06", "all_log_likelihood has %d entries for %d labelled points (%d empty clusters)" % (len(all_ll), len(labs), I.counts["empty_final_clusters"]))
    else:
        d_sorted = np.abs(np.sort(all_ll) - np.sort(ll))
        if np.any(d_sorted > 2 * mb + 1e-9 * np.abs(np.sort(ll))):
            I.v("C05", "per-point log-likelihoods in the result differ from the Gaussian log-densities under the final model (max dev %.3g, bound %.3g)" % (float(d_sorted.max()), mb))
        I.c("result_ll_entries_checked", len(all_ll))
    sabs = float(np.sum(np.abs(all_ll))) if len(all_ll) else 0.0
    if len(all_ll):
        if abs(res.overall_log_likelihood - math.fsum(all_ll)) > 1e-12 * sabs + 1e-300:
            I.v("C06", "overall_log_likelihood %r is not the sum %r of the per-point list" % (res.overall_log_likelihood, math.fsum(all_ll)))
        if abs(res.overall_log_likelihood_mean - math.fsum(all_ll) / len(all_ll)) > 1e-12 * sabs / len(all_ll) + 1e-300:
            I.v("C06", "overall mean %r is not the mean of the per-point list %r" % (res.overall_log_likelihood_mean, math.fsum(all_ll) / len(all_ll)))
        if abs(res.overall_log_likelihood_median - float(np.median(all_ll))) > 1e-12 * abs(float(np.median(all_ll))) + 1e-300:
            I.v("C06", "overall median %r is not the median of the per-point list %r" % (res.overall_log_likelihood_median, float(np.median(all_ll))))
    if abs(res.overall_log_likelihood - math.fsum(ll)) > float(np.sum(bnd)) * 2 + 1e-9 * float(np.sum(np.abs(ll))):
        I.v("C05", "overall_log_likelihood %r differs from the sum of Gaussian log-densities %r" % (res.overall_log_likelihood, math.fsum(ll)))
    cm_ = list(res.cluster_log_likelihood_mean)
    cmed = list(res.cluster_log_likelihood_median)
    if len(cm_) != K or len(cmed) != K:
        I.v("C06", "per-cluster mean/median lists have %d/%d entries for K=%d" % (len(cm_), len(cmed), K))
    else:
        la = np.asarray(labs)
        for k in range(K):
            sel = ll[la == k]
            if len(sel) == 0:
                if cm_[k] != 0 or cmed[k] != 0:
                    I.v("C06", "cluster %d has no point but reports mean %r / median %r instead of 0" % (k, cm_[k], cmed[k]))
            else:
                tol = 2 * mb + 1e-9 * float(np.max(np.abs(sel)))
                if abs(cm_[k] - float(np.mean(sel))) > tol:
                    for pr in ("C06", "C05"):
                        I.v(pr, "cluster %d mean %r is not the mean %r of the log-densities of exactly its %d points" % (k, cm_[k], float(np.mean(sel)), len(sel)))
                if abs(cmed[k] - float(np.median(sel))) > tol:
                    for pr in ("C06", "C05"):
                        I.v(pr, "cluster %d median %r is not the median %r of the log-densities of exactly its %d points" % (k, cmed[k], float(np.median(sel)), len(sel)))
                if len(sel) == 1:
                    I.c("final_singleton_clusters")
    # cost equation, within-series pairs
    tmpl = template_ref(lens)
    within = beta_vec * tmpl
    boundary_idx = [i for i in range(Tp - 1) if tmpl[i] == 0.0]
    sw_within = math.fsum(float(within[i]) for i in range(Tp - 1) if labs[i] != labs[i + 1])
    cross = math.fsum(float(beta_vec[i]) for i in boundary_idx if labs[i] != labs[i + 1])
    cost_tol = 1e-9 * (float(np.sum(np.abs(ll))) + float(np.sum(np.abs(beta_vec)))) + 2 * float(np.sum(bnd))
    expect = -float(res.overall_log_likelihood) + sw_within      # the property relates the result's own fields
    got = float(res.label_assignment_cost)
    beta_seen = None
    last_steps = [s_ for s_ in run.label_steps if s_.get("round") == R - 1 and np.asarray(s_["table"]).shape[0] == Tp]
    if len(last_steps) == 1:
        try:
            beta_seen = lab.beta_vector(np.asarray(last_steps[0]["beta"], dtype=np.float64), Tp)
        except ValueError:
            beta_seen = None
    if beta_seen is None and not joint:
        beta_seen = beta_vec.copy()        # the labelling was not one whole kernel call: the caller's cost is what must have been priced
    if beta_seen is not None and not joint and not np.array_equal(beta_seen[:max(Tp - 1, 0)], beta_vec[:max(Tp - 1, 0)]):
        for pr in ("C06", "C07"):
            I.v(pr, "the switching cost that reached the labelling step is not the caller's (first difference at pair %d: %r vs %r)" % (
                int(np.argmax(beta_seen[:Tp - 1] != beta_vec[:Tp - 1])), float(beta_seen[int(np.argmax(beta_seen[:Tp - 1] != beta_vec[:Tp - 1]))]),
                float(beta_vec[int(np.argmax(beta_seen[:Tp - 1] != beta_vec[:Tp - 1]))])))
    masked_seen = beta_seen is not None and np.array_equal(beta_seen[:Tp - 1], within[:Tp - 1])
    unmasked_seen = beta_seen is not None and np.array_equal(beta_seen[:Tp - 1], beta_vec[:Tp - 1])
    mask_matters = nseries > 1 and any(beta_vec[i] != 0 for i in boundary_idx)
    if scripted:
        pass
    elif abs(got - expect) <= cost_tol:
        I.c("cost_equation_held")
    elif joint and mask_matters and unmasked_seen and not masked_seen and abs(got - (expect + cross)) <= cost_tol and cross > 0:
        I.k("C06", "joint-boundary-priced", "cost %r = within-series cost %r + %r for %d priced series boundaries" % (
            got, expect, cross, sum(1 for i in boundary_idx if labs[i] != labs[i + 1])))
    else:
        I.v("C06", "label_assignment_cost %r != -sum(ll) + within-series switching cost = %r (diff %.6g, tol %.3g)" % (got, expect, got - expect, cost_tol))

    # ---- C07 joint pricing
    if joint and not scripted:
        if beta_seen is None:
            I.c("joint_beta_not_observed")
        elif not mask_matters:
            if not unmasked_seen:
                I.v("C07", "switching cost reaching the labelling step differs from the caller's although no boundary needs masking")
            I.c("joint_runs_without_priced_boundary")
        else:
            Cfin = -ref_tab
            tolv = lab.cost_tolerance(Cfin, beta_vec) + 2 * float(np.sum(np.max(bnd_tab, axis=1)))
            if masked_seen:
                opt, _ = lab.forward_viterbi(Cfin, within)
                pc = lab.path_cost(Cfin, within, labs)
                if pc > opt + tolv:
                    I.v("C07", "returned labelling costs %r under within-series pricing, optimum is %r" % (pc, opt))
                if abs(got - pc) > cost_tol:
                    I.v("C07", "reported cost %r != cost under within-series pricing %r" % (got, pc))
                I.c("joint_masked_runs")
            elif unmasked_seen:
                I.k("C07", "joint-boundary-priced", "labelling step saw the caller's unmasked switching cost on %d boundary pairs (%d series)" % (len(boundary_idx), nseries))
                opt, _ = lab.forward_viterbi(Cfin, beta_vec)
                pc = lab.path_cost(Cfin, beta_vec, labs)
                if pc > opt + tolv:
                    I.v("C07", "returned labelling is not even optimal for all-pairs pricing: %r vs %r" % (pc, opt))
                if abs(got - (expect + cross)) > cost_tol:
                    I.v("C07", "reported cost %r is neither the within-series cost %r nor that plus the boundary switches %r" % (got, expect, expect + cross))
                opt_w, _ = lab.forward_viterbi(Cfin, within)
                if lab.path_cost(Cfin, within, labs) > opt_w + tolv:
                    I.c("joint_runs_suboptimal_for_within_series_pricing")
                if cross > 0:
                    I.c("joint_runs_cost_inflated_by_boundary")
            else:
                I.v("C07", "switching cost reaching the labelling step is neither the caller's nor the caller's with zeros on the %d boundary pairs" % len(boundary_idx))

    # ---- C09: returned labelling optimal for the returned model
    if beta_seen is not None and not scripted:
        Cfin = -ref_tab
        tolv = lab.cost_tolerance(Cfin, beta_seen) + 2 * float(np.sum(np.max(bnd_tab, axis=1)))
        opt, _ = lab.forward_viterbi(Cfin, beta_seen)
        pc = lab.path_cost(Cfin, beta_seen, labs)
        if pc > opt + tolv:
            I.v("C09", "returned labelling costs %r under the returned model, the optimum is %r" % (pc, opt))
        I.c("final_optimality_checked")

    # ---- C16
    try:
        bic = metrics.bic_def(labs, ths, covs)
        gotb = float(res.bayesian_information_criterion)
        # rounding: tr(Theta S) may cancel massively (sum |theta||s| >> |trace|), so the bound uses the absolute products
        absprod = sum(float(np.sum(np.abs(th) * np.abs(S_.T))) for th, S_ in zip(ths, covs))
        scale = abs(bic) + 2 * sum(abs(float(np.linalg.slogdet(th)[1])) for th in ths)
        tol_bic = 1e-9 * scale + 64 * gauss.EPS * NW * 2 * absprod + 1e-9
        near_threshold = any(np.any(np.abs(np.abs(th) - 2e-5) < 1e-12) for th in ths)
        if not near_threshold:
            if not (abs(gotb - bic) <= tol_bic):
                I.v("C16", "reported BIC %r, definition gives %r (T=%d)" % (gotb, bic, len(labs)))
            I.c("bic_checked")
    except Exception as e:  # oracle failure is not a verdict
        I.c("bic_oracle_error:" + type(e).__name__)

    # ---- C17
    if R < limit and K >= 2 and all(c_ > 0 for c_ in counts) and Tp > K:
        with np.errstate(all="ignore"):
            d = metrics.ch_def(X, labs, K)
            s = metrics.ch_scalar_centre(X, labs, K)
        gotc = float(res.calinski_harabasz_index)
        if np.isfinite(d) and np.isfinite(s):
            def close(a_, b_):
                return abs(a_ - b_) <= 1e-8 * max(abs(a_), abs(b_)) + 1e-300
            if close(gotc, d):
                I.c("ch_matches_definition")
                if close(d, s):
                    I.c("ch_variants_coincide")
            elif close(gotc, s):
                I.k("C17", "ch-scalar-centre", "reported %r = scalar-centre variant; the per-column-centroid definition gives %r" % (gotc, d))
            else:
                I.v("C17", "reported index %r equals neither the definition %r nor the known scalar-centre variant %r" % (gotc, d, s))
            I.c("ch_checked")
    return I
