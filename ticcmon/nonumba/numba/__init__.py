"""Import-blocking stub: makes `import numba` fail so that fast_ticc takes its no-Numba fallback path."""
raise ImportError("numba deliberately made unimportable by ticcmon (Numba-absent execution mode)")
