"""Order-free sequential model of cluster repopulation (C08)."""
import numpy as np


def capacity(size, m):
    """How many refills a cluster of this size can serve: it must hold >= 2m before each gift."""
    return size // m - 1 if size >= 2 * m else 0


def needs_refill(sizes):
    return [k for k, s in enumerate(sizes) if s < 2]


def check_repopulation(labels_in, labels_out, K, m, spreads, raised, spread_rtol=0.0):
    """Return list of discrepancy strings (empty = conforms to the model).

    raised: None, or the exception instance the call raised.
    spreads: Frobenius norm of each cluster's computed covariance (donor ranking key).
    """
    issues = []
    T = len(labels_in)
    s = [0] * K
    for l in labels_in:
        s[l] += 1
    R = needs_refill(s)
    caps = [capacity(x, m) if k not in R else 0 for k, x in enumerate(s)]
    if len(R) == 0:
        if raised is not None:
            issues.append("raised although no cluster needed repopulation: %r" % (raised,))
        elif list(labels_out) != list(labels_in):
            issues.append("labelling changed although no cluster has fewer than 2 points")
        return issues
    if sum(caps) < len(R):
        if raised is None:
            issues.append("donor shortage (capacity %d < %d recipients) but no error raised" % (sum(caps), len(R)))
        else:
            if not isinstance(raised, RuntimeError):
                issues.append("donor shortage raised %s instead of RuntimeError" % type(raised).__name__)
            elif "donor" not in str(raised).lower():
                issues.append("RuntimeError does not mention the donor shortage: %s" % raised)
        return issues
    if raised is not None:
        issues.append("raised %r although donors had capacity %d >= %d" % (raised, sum(caps), len(R)))
        return issues
    if len(labels_out) != T:
        issues.append("length changed %d -> %d" % (T, len(labels_out)))
        return issues
    bad = [l for l in labels_out if not (isinstance(l, (int, np.integer)) and 0 <= l < K)]
    if bad:
        issues.append("labels outside [0,K): %r" % bad[:5])
        return issues
    s2 = [0] * K
    for l in labels_out:
        s2[l] += 1
    t = [0] * K
    for k in range(K):
        if k in R:
            if s2[k] != s[k] + m:
                issues.append("recipient %d: size %d -> %d, expected +%d" % (k, s[k], s2[k], m))
        else:
            diff = s[k] - s2[k]
            if diff < 0 or diff % m != 0:
                issues.append("cluster %d: size %d -> %d is not a whole number of gifts of %d" % (k, s[k], s2[k], m))
                continue
            t[k] = diff // m
            if t[k] > caps[k]:
                issues.append("donor %d gave %d times, capacity %d (size %d, m=%d)" % (k, t[k], caps[k], s[k], m))
            if t[k] > 0 and s[k] < 2 * m:
                issues.append("donor %d had only %d < 2m points" % (k, s[k]))
            if t[k] > 0 and s2[k] < m:
                issues.append("donor %d left with %d < m points" % (k, s2[k]))
    if sum(t) != len(R) and not issues:
        issues.append("gifts %d != recipients %d" % (sum(t), len(R)))
    for i, (a, b) in enumerate(zip(labels_in, labels_out)):
        if a != b:
            if b not in R:
                issues.append("point %d moved %d -> %d, which was not under-populated" % (i, a, b))
                break
            if a in R:
                issues.append("point %d taken from under-populated cluster %d" % (i, a))
                break
    # spread order: a donor with strictly smaller spread is used only after every strictly
    # larger-spread donor is exhausted
    donors = [k for k in range(K) if caps[k] > 0]
    for a in donors:
        for b in donors:
            if spreads[a] > spreads[b] * (1.0 + spread_rtol) and t[b] > 0 and t[a] < caps[a]:
                issues.append("donor order: cluster %d (spread %.6g) used while cluster %d (spread %.6g) still had capacity"
                              % (b, spreads[b], a, spreads[a]))
    return issues
