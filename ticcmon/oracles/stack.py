"""Reference window stacking (C10, C07)."""
import numpy as np


def stack_ref(data, W):
    data = np.asarray(data)
    T, N = data.shape
    if T < W:
        raise ValueError("series shorter than window")
    v = np.lib.stride_tricks.sliding_window_view(data, (W, N))  # (T-W+1, 1, W, N)
    return np.ascontiguousarray(v.reshape(T - W + 1, W * N)).astype(np.float64)


def bits(a):
    a = np.ascontiguousarray(np.asarray(a, dtype=np.float64))
    return a.view(np.uint64)
