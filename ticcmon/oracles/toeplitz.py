"""Block-Toeplitz classes, projection, KKT certificate and a reference solver (C02, C11)."""
import functools
import math

import numpy as np

EPS = float(np.finfo(float).eps)


@functools.lru_cache(maxsize=256)
def toeplitz_classes(N, W):
    """dict (block, i, j) -> list of (r, c), r <= c, by direct enumeration of the upper triangle.

    Position (r, c) lies in block c//N - r//N at in-block coordinates (r % N, c % N); inside the
    diagonal blocks only i <= j occurs in the upper triangle.
    """
    n = N * W
    cl = {}
    for r in range(n):
        for c in range(r, n):
            b = c // N - r // N
            i, j = r % N, c % N
            cl.setdefault((b, i, j), []).append((r, c))
    return cl


@functools.lru_cache(maxsize=256)
def class_index_arrays(N, W):
    out = []
    for key, pos in toeplitz_classes(N, W).items():
        rr = np.array([p[0] for p in pos])
        cc = np.array([p[1] for p in pos])
        out.append((key, rr, cc))
    return out


def full_from_upper(n, vec):
    """Independent re-inflation: row-major upper triangle -> symmetric matrix."""
    M = np.zeros((n, n))
    k = 0
    for r in range(n):
        ln = n - r
        M[r, r:] = vec[k:k + ln]
        k += ln
    return M + np.triu(M, 1).T


def upper_from_full(M):
    n = M.shape[0]
    return np.concatenate([M[r, r:] for r in range(n)])


def project_toeplitz(X, N, W):
    """Closest (Frobenius, upper triangle) class-constant symmetric matrix."""
    P = np.zeros_like(X)
    for key, rr, cc in class_index_arrays(N, W):
        m = X[rr, cc].mean()
        P[rr, cc] = m
        P[cc, rr] = m
    return P


def lambda_matrix(lam, n):
    if np.ndim(lam) == 0:
        return np.full((n, n), float(lam))
    return np.asarray(lam, dtype=np.float64)


def objective(X, S, lam):
    """-log det X + tr(S X) + sum over the upper triangle of lam*|X| (the form the solver uses:
    one penalty term per stored entry)."""
    n = X.shape[0]
    try:
        C = np.linalg.cholesky((X + X.T) / 2)       # the objective is +inf outside the positive-definite cone
    except np.linalg.LinAlgError:
        return math.inf
    ld = 2.0 * float(np.sum(np.log(np.diag(C))))
    L = lambda_matrix(lam, n)
    iu = np.triu_indices(n)
    return -ld + float(np.sum(S * X)) + float(np.sum(L[iu] * np.abs(X[iu])))


def kkt_certificate(theta_compressed, S, lam, N, W, abstol, reltol, safety=1.5):
    """epsilon-KKT certificate implied by the stopping rule (derivation in DESIGN C02).

    Returns dict(ratio_kkt, ratio_toeplitz, cond, worst_class, skipped).
    ratio <= 1 means the certificate holds.
    """
    n = N * W
    x = np.asarray(theta_compressed, dtype=np.float64)
    X = full_from_upper(n, x)
    S = np.asarray(S, dtype=np.float64)
    out = {"skipped": None}
    if not np.all(np.isfinite(X)):
        out.update(ratio_kkt=math.inf, ratio_toeplitz=math.inf, cond=math.inf, worst_class=None)
        return out
    try:
        ev = np.linalg.eigvalsh(X)
    except np.linalg.LinAlgError:
        out.update(ratio_kkt=math.inf, ratio_toeplitz=math.inf, cond=math.inf, worst_class=None)
        return out
    if ev.min() <= 0:
        out.update(ratio_kkt=math.inf, ratio_toeplitz=math.inf, cond=math.inf, worst_class="not_pd")
        return out
    cond = float(ev.max() / ev.min())
    out["cond"] = cond
    if cond > 1e10:
        out.update(skipped="illconditioned", ratio_kkt=0.0, ratio_toeplitz=0.0, worst_class=None)
        return out
    Xi = np.linalg.inv(X)
    G = Xi - S
    L = lambda_matrix(lam, n)
    m = x.size
    absterm = math.sqrt(m) * abstol + 1e-4
    iu = np.triu_indices(n)
    g_norm = float(np.linalg.norm(G[iu]))
    tau_d = (absterm + reltol * g_norm) / (1.0 - reltol)
    tau_p = (absterm + reltol * float(np.linalg.norm(x))) / (1.0 - reltol)
    fl = 100.0 * EPS * cond * (float(np.linalg.norm(Xi)) + float(np.linalg.norm(S)))
    worst = 0.0
    worst_class = None
    toep = 0.0
    for key, rr, cc in class_index_arrays(N, W):
        vals = X[rr, cc]
        mean = float(vals.mean())
        toep += float(np.sum((vals - mean) ** 2))
        g = float(G[rr, cc].sum())
        ls = float(L[rr, cc].sum())
        if abs(mean) > tau_p:
            viol = abs(g - ls * math.copysign(1.0, mean))
        else:
            viol = max(0.0, abs(g) - ls)
        bound = math.sqrt(len(rr)) * (safety * tau_d + fl)
        ratio = viol / bound
        if ratio > worst:
            worst = ratio
            worst_class = [int(k) for k in key] + [viol, bound]
    out["ratio_kkt"] = worst
    out["ratio_toeplitz"] = math.sqrt(toep) / (safety * tau_p + 100.0 * EPS * float(np.linalg.norm(x)))
    out["worst_class"] = worst_class
    out["tau_p"] = tau_p
    out["tau_d"] = tau_d
    return out


def reference_solve(S, lam, N, W, rho=1.0, iters=20000, tol=1e-10):
    """Harness-side ADMM on the class parameters, written independently of the library:
    X-update by eigen-decomposition (stable form), Z-update by per-class soft threshold.
    Returns the class-constant iterate Z (full symmetric matrix) or None if Z is not PD.
    """
    n = N * W
    S = np.asarray(S, dtype=np.float64)
    L = lambda_matrix(lam, n)
    classes = class_index_arrays(N, W)
    Z = np.eye(n)
    U = np.zeros((n, n))
    for it in range(iters):
        M = rho * (Z - U) - S
        M = (M + M.T) / 2
        d, Q = np.linalg.eigh(M)
        root = np.sqrt(d * d + 4 * rho)
        f = np.where(d < 0, (4 * rho) / (root - d), d + root) / (2 * rho)
        X = (Q * f) @ Q.T
        A = X + U
        Zn = np.zeros((n, n))
        for key, rr, cc in classes:
            k = len(rr)
            s = float(A[rr, cc].sum())
            q = float(L[rr, cc].sum())
            v = rho * s
            if v > q:
                z = (v - q) / (rho * k)
            elif v < -q:
                z = (v + q) / (rho * k)
            else:
                z = 0.0
            Zn[rr, cc] = z
            Zn[cc, rr] = z
        U = U + X - Zn
        dz = np.linalg.norm(Zn - Z)
        dx = np.linalg.norm(X - Zn)
        Z = Zn
        if dz < tol and dx < tol and it > 5:
            break
    try:
        np.linalg.cholesky(Z)
    except np.linalg.LinAlgError:
        return None
    return Z
