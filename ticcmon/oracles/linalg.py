"""Positive-definiteness decision (C03)."""
import numpy as np


def is_symmetric_exact(M):
    M = np.asarray(M)
    return M.ndim == 2 and M.shape[0] == M.shape[1] and np.array_equal(M, M.T)


def _mp_is_pd(M, dps=80):
    import mpmath as mp
    mp.mp.dps = dps
    n = M.shape[0]
    A = mp.matrix(n, n)
    for i in range(n):
        for j in range(n):
            A[i, j] = mp.mpf(float(M[i, j]))
    # LDL^T without square roots; PD iff all pivots > 0
    for k in range(n):
        piv = A[k, k]
        if not (piv > 0):
            return False
        for i in range(k + 1, n):
            f = A[i, k] / piv
            if f != 0:
                for j in range(k + 1, n):
                    A[i, j] -= f * A[k, j]
    return True


def is_pd(M, stats=None):
    """True iff the double matrix M is symmetric positive definite.

    Cholesky after symmetric diagonal scaling (a congruence: preserves definiteness); when the
    scaled Cholesky fails or the matrix is very ill conditioned the decision is made exactly
    (to 80 digits) with mpmath, so a badly scaled but genuinely PD matrix is not misreported.
    """
    M = np.asarray(M, dtype=np.float64)
    if M.ndim != 2 or M.shape[0] != M.shape[1]:
        return False
    if not np.all(np.isfinite(M)):
        return False
    dg = np.diag(M)
    if np.any(dg <= 0):
        return False
    s = 1.0 / np.sqrt(dg)
    Ms = M * s[:, None] * s[None, :]
    Ms = (Ms + Ms.T) / 2
    try:
        np.linalg.cholesky(Ms)
        ok = True
    except np.linalg.LinAlgError:
        ok = False
    cond = np.linalg.cond(Ms)
    if ok and cond < 1e13:
        return True
    if stats is not None:
        stats["mp_pd_decisions"] = stats.get("mp_pd_decisions", 0) + 1
    if M.shape[0] > 60:
        # too large for the exact arbiter: trust eigenvalues with a relative floor
        ev = np.linalg.eigvalsh(Ms)
        return bool(ev.min() > 0)
    return _mp_is_pd(M)
