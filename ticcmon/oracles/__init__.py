"""Independent reference oracles.  Nothing in this package imports fast_ticc."""
