"""Bitwise digest of a result object (C14, C18, C20)."""
import hashlib

import numpy as np

FLOAT_FIELDS = ["bayesian_information_criterion", "calinski_harabasz_index", "label_assignment_cost",
                "overall_log_likelihood", "overall_log_likelihood_mean", "overall_log_likelihood_median"]
ARRAY_FIELDS = ["all_log_likelihood", "cluster_log_likelihood_mean", "cluster_log_likelihood_median"]


def _fbytes(x):
    return np.asarray(x, dtype=np.float64).tobytes()


def result_fields(result):
    out = {}
    for f in FLOAT_FIELDS:
        out[f] = _fbytes(getattr(result, f))
    for f in ARRAY_FIELDS:
        out[f] = _fbytes(np.asarray(list(getattr(result, f)), dtype=np.float64))
    mrfs = getattr(result, "markov_random_fields")
    out["markov_random_fields"] = b"|".join(
        np.ascontiguousarray(np.asarray(m, dtype=np.float64)).tobytes() + str(np.shape(m)).encode() for m in mrfs)
    labels = getattr(result, "point_labels")
    if len(labels) > 0 and isinstance(labels[0], (list, tuple, np.ndarray)):
        out["point_labels"] = ";".join(",".join(str(int(v)) for v in lst) for lst in labels).encode()
    else:
        out["point_labels"] = ",".join(str(int(v)) for v in labels).encode()
    out["num_clusters"] = str(int(result.num_clusters)).encode()
    out["window_size"] = str(int(result.window_size)).encode()
    return out


def field_digests(result):
    return {k: hashlib.sha256(v).hexdigest()[:16] for k, v in result_fields(result).items()}


def digest(result):
    h = hashlib.sha256()
    for k, v in sorted(result_fields(result).items()):
        h.update(k.encode())
        h.update(v)
    return h.hexdigest()
