"""Two-pass sample statistics (C12)."""
import numpy as np


def sample_stats(X, ddof):
    X = np.asarray(X, dtype=np.float64)
    n = X.shape[0]
    mu = X.mean(axis=0)
    D = X - mu[None, :]
    denom = n - ddof
    with np.errstate(divide="ignore", invalid="ignore"):
        S = (D.T @ D) / denom if denom != 0 else np.full((X.shape[1], X.shape[1]), np.nan)
    return mu, S
