"""Gaussian log-density from the precision matrix (C05, C06, C09)."""
import math

import numpy as np

EPS = float(np.finfo(float).eps)
LOG2PI = math.log(2.0 * math.pi)


def chol_logdet(theta):
    L = np.linalg.cholesky(theta)
    return L, 2.0 * float(np.sum(np.log(np.diag(L))))


def gauss_logpdf(x, mu, theta, chol=None):
    if chol is None:
        chol = chol_logdet(theta)
    L, logdet = chol
    d = np.asarray(x, dtype=np.float64) - np.asarray(mu, dtype=np.float64)
    y = L.T @ d
    return 0.5 * (logdet - float(y @ y) - len(d) * LOG2PI)


def gauss_table(X, mus, thetas):
    """(T, K) table of log densities."""
    X = np.asarray(X, dtype=np.float64)
    out = np.zeros((X.shape[0], len(thetas)))
    for k, (mu, th) in enumerate(zip(mus, thetas)):
        L, logdet = chol_logdet(np.asarray(th, dtype=np.float64))
        D = X - np.asarray(mu, dtype=np.float64)[None, :]
        Y = D @ L
        out[:, k] = 0.5 * (logdet - np.sum(Y * Y, axis=1) - X.shape[1] * LOG2PI)
    return out


def rounding_bound(x, mu, theta, logdet=None, cond=None):
    """A-priori bound on |computed - exact| for one log density (see DESIGN C05)."""
    theta = np.asarray(theta, dtype=np.float64)
    d = np.abs(np.asarray(x, dtype=np.float64) - np.asarray(mu, dtype=np.float64))
    n = len(d)
    if logdet is None:
        logdet = float(np.linalg.slogdet(theta)[1])
    if cond is None:
        cond = float(np.linalg.cond(theta))
    quad_abs = float(d @ np.abs(theta) @ d)
    mag = np.abs(np.asarray(x, dtype=np.float64)) + np.abs(np.asarray(mu, dtype=np.float64))
    cancel = float(d @ np.abs(theta) @ mag)       # x - mu is rounded relative to |x|, |mu|, not to the difference
    return 64.0 * EPS * (abs(logdet) + n * LOG2PI + (n + 2) * quad_abs + 4 * cancel + n * cond)


def table_bound(X, mus, thetas):
    X = np.asarray(X, dtype=np.float64)
    out = np.zeros((X.shape[0], len(thetas)))
    for k, (mu, th) in enumerate(zip(mus, thetas)):
        th = np.asarray(th, dtype=np.float64)
        n = th.shape[0]
        logdet = float(np.linalg.slogdet(th)[1])
        cond = float(np.linalg.cond(th))
        mu_ = np.asarray(mu, dtype=np.float64)
        D = np.abs(X - mu_[None, :])
        quad_abs = np.sum((D @ np.abs(th)) * D, axis=1)
        cancel = np.sum((D @ np.abs(th)) * (np.abs(X) + np.abs(mu_)[None, :]), axis=1)
        out[:, k] = 64.0 * EPS * (abs(logdet) + n * LOG2PI + (n + 2) * quad_abs + 4 * cancel + n * cond)
    return out


def mp_logpdf(x, mu, theta, dps=80):
    """High-precision arbiter (mpmath); exact value for the double inputs given."""
    import mpmath as mp
    mp.mp.dps = dps
    n = len(x)
    A = mp.matrix(n, n)
    for i in range(n):
        for j in range(n):
            A[i, j] = mp.mpf(float(theta[i, j]))
    d = mp.matrix([mp.mpf(float(a)) - mp.mpf(float(b)) for a, b in zip(x, mu)])
    L = mp.cholesky(A)
    logdet = 2 * sum(mp.log(L[i, i]) for i in range(n))
    quad = (d.T * A * d)[0]
    return float(mp.mpf("0.5") * (logdet - quad - n * mp.log(2 * mp.pi)))
