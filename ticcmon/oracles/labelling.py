"""Reference solutions of the labelling problem (C01, C06, C07, C09).

cost(p) = sum_i C[i, p_i] + sum_{i<T-1} beta[i] * [p_i != p_{i+1}]
"""
import itertools
import math

import numpy as np

EPS = float(np.finfo(float).eps)


def beta_vector(beta, T):
    """beta as a length-T float64 vector (beta[i] prices the pair (i, i+1); beta[T-1] is unused)."""
    b = np.zeros(T, dtype=np.float64) + np.asarray(beta, dtype=np.float64)
    return b


def path_cost(C, beta, path):
    C = np.asarray(C, dtype=np.float64)
    T = C.shape[0]
    b = beta_vector(beta, T)
    total = math.fsum(float(C[i, path[i]]) for i in range(T))
    total += math.fsum(float(b[i]) for i in range(T - 1) if path[i] != path[i + 1])
    return total


def forward_viterbi(C, beta):
    """O(TK) forward dynamic programme; returns (optimum, one optimal path)."""
    C = np.asarray(C, dtype=np.float64)
    T, K = C.shape
    b = beta_vector(beta, T)
    f = C[0].copy()
    back = np.zeros((T, K), dtype=np.int64)
    for t in range(1, T):
        j = int(np.argmin(f))
        jump = f[j] + b[t - 1]
        stay_better = f <= jump
        back[t] = np.where(stay_better, np.arange(K), j)
        f = np.where(stay_better, f, jump) + C[t]
    k = int(np.argmin(f))
    opt = float(f[k])
    path = [0] * T
    path[T - 1] = k
    for t in range(T - 1, 0, -1):
        k = int(back[t, k])
        path[t - 1] = k
    return opt, path


def brute_labelling(C, beta, limit=60000):
    """Enumerate all K**T sequences (only if K**T <= limit); returns optimum or None."""
    C = np.asarray(C, dtype=np.float64)
    T, K = C.shape
    if K ** T > limit:
        return None
    b = beta_vector(beta, T)
    seqs = np.array(list(itertools.product(range(K), repeat=T)), dtype=np.int64)  # (K^T, T)
    cost = C[np.arange(T)[None, :], seqs].sum(axis=1)
    if T > 1:
        sw = (seqs[:, :-1] != seqs[:, 1:]) * b[None, :T - 1]
        cost = cost + sw.sum(axis=1)
    return float(cost.min())


def cost_tolerance(C, beta):
    """A-priori bound on the accumulated rounding error of either DP and of the recomputation."""
    C = np.asarray(C, dtype=np.float64)
    T = C.shape[0]
    b = beta_vector(beta, T)
    mag = float(np.sum(np.max(np.abs(C), axis=1)) + np.sum(np.abs(b[:max(T - 1, 0)])))
    return 4.0 * (T + 2) * EPS * mag


def switches(path):
    return sum(1 for a, b in zip(path[:-1], path[1:]) if a != b)
