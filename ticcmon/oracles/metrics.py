"""Definitions of the two quality measures (C16, C17)."""
import math

import numpy as np


def bic_def(labels, thetas, covs, threshold=2e-5):
    """P ln T - 2 sum_k (ln det Theta_k - tr(Theta_k S_k)); P counted per maximal run of equal labels."""
    T = len(labels)
    counts = [int(np.sum(np.abs(np.asarray(th)) > threshold)) for th in thetas]
    P = 0
    last = None
    for l in labels:
        if l != last:
            P += counts[l]
            last = l
    mod = 0.0
    for th, S in zip(thetas, covs):
        th = np.atleast_2d(np.asarray(th, dtype=np.float64))
        S = np.atleast_2d(np.asarray(S, dtype=np.float64))
        mod += float(np.linalg.slogdet(th)[1]) - float(np.sum(th * S.T))
    return P * math.log(T) - 2.0 * mod


def _ch(X, labels, K, centre):
    X = np.asarray(X, dtype=np.float64)
    la = np.asarray(labels)
    B = 0.0
    Wd = 0.0
    for k in range(K):
        Xk = X[la == k]
        if len(Xk) == 0:
            continue
        mk = Xk.mean(axis=0)
        B += len(Xk) * float(np.sum((mk - centre) ** 2))
        Wd += float(np.sum((Xk - mk[None, :]) ** 2))
    T = X.shape[0]
    with np.errstate(all="ignore"):
        return float(np.float64(B / (K - 1)) / np.float64(Wd / (T - K)))


def ch_def(X, labels, K):
    X = np.asarray(X, dtype=np.float64)
    return _ch(X, labels, K, X.mean(axis=0))


def ch_scalar_centre(X, labels, K):
    """The known deviating variant: centre = scalar mean of all entries."""
    X = np.asarray(X, dtype=np.float64)
    return _ch(X, labels, K, float(X.mean()))
