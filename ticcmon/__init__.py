"""ticcmon - runtime monitors for sandialabs/fast_ticc (see /verif/DESIGN.md)."""
