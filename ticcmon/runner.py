"""Driver: shards a check over sub-processes, merges, writes evidence, prints verdict lines."""
import argparse
import hashlib
import importlib
import json
import os
import shutil
import subprocess
import sys
import tempfile
import time

from ticcmon import ser

HERE = os.path.dirname(os.path.dirname(os.path.abspath(__file__)))
PY = "/venv/bin/python"
MAX_PAR = int(os.environ.get("VERIF_JOBS", "16"))
RETRIED = []


def ensure_deps():
    deps = os.path.join(HERE, ".deps")
    if all(os.path.isdir(os.path.join(deps, p)) for p in ("icontract", "mpmath", "deal")):
        return
    subprocess.run([os.path.join(HERE, "setup.sh")], check=True, stdout=subprocess.DEVNULL)


def load_known():
    """known_findings.txt -> {property: {key: what}} for 'known:' lines only ('fixed:' suppress nothing)."""
    out = {}
    path = os.path.join(HERE, "known_findings.txt")
    if not os.path.exists(path):
        return out
    for line in open(path):
        line = line.strip()
        if not line.startswith("known:"):
            continue
        fields = dict(tok.split("=", 1) for tok in line[len("known:"):].split() if "=" in tok and not tok.startswith("what="))
        what = line.split("what=", 1)[1] if "what=" in line else ""
        out.setdefault(fields.get("property"), {})[fields.get("key")] = what
    return out


def mode_env(mode, base):
    env = dict(base)
    for k in ("NUMBA_DISABLE_JIT", "NUMBA_BOUNDSCHECK"):
        env.pop(k, None)
    repo = env.get("FAST_TICC_REPO", "/repo")
    pp = [repo + "/src", os.path.join(HERE, ".deps"), HERE]
    if mode == "interp":
        env["NUMBA_DISABLE_JIT"] = "1"
    elif mode == "jit":
        pass
    elif mode == "jit_bc":
        env["NUMBA_BOUNDSCHECK"] = "1"
    elif mode == "nonumba":
        pp.insert(0, os.path.join(HERE, "ticcmon", "nonumba"))
    else:
        raise ValueError(mode)
    env["PYTHONPATH"] = ":".join(pp)
    env["TICCMON_MODE"] = mode
    return env


def run_shards(prop, specs, workdir, timeout):
    """Run shard specs in sub-processes (<= MAX_PAR at a time).  Returns list of result dicts."""
    base = dict(os.environ)
    base.setdefault("OMP_NUM_THREADS", "1")
    base.setdefault("OPENBLAS_NUM_THREADS", "1")
    base.setdefault("MKL_NUM_THREADS", "1")
    base["PYTHONPYCACHEPREFIX"] = os.path.join(workdir, "pyc")
    base["TICCMON_WORKDIR"] = workdir
    pending = list(enumerate(specs))
    running = []
    results = [None] * len(specs)

    def start(i, spec):
        sf = os.path.join(workdir, "spec%d.json" % i)
        of = os.path.join(workdir, "out%d.json" % i)
        with open(sf, "w") as f:
            f.write(ser.dumps(spec))
        env = mode_env(spec.get("mode", "interp"), base)
        env["TICCMON_SHARD_TIMEOUT"] = str(int(spec.get("timeout", timeout)))
        for k, v in (spec.get("env") or {}).items():
            env[k] = str(v)
        log = open(os.path.join(workdir, "log%d.txt" % i), "w")
        p = subprocess.Popen([PY, "-B", "-m", "ticcmon.shard", prop, sf, of], env=env, stdout=log,
                             stderr=subprocess.STDOUT, cwd=HERE)
        return dict(i=i, p=p, of=of, t0=time.time(), log=log, spec=spec)

    while pending or running:
        while pending and len(running) < MAX_PAR:
            i, spec = pending.pop(0)
            running.append(start(i, spec))
        time.sleep(0.05)
        still = []
        for r in running:
            rc = r["p"].poll()
            if rc is None:
                if time.time() - r["t0"] > r["spec"].get("timeout", timeout):
                    r["p"].kill()
                    r["p"].wait()
                    r["log"].close()
                    try:
                        tail = open(os.path.join(workdir, "log%d.txt" % r["i"])).read()[-2500:]
                    except OSError:
                        tail = ""
                    if not r["spec"].get("_retried") and not r["spec"].get("no_retry"):
                        # a wall-clock stall decides nothing: the shard is run once more (its cases are deterministic); a shard that
                        # stalls twice is reported as inconclusive with the stacks of both attempts
                        spec2 = dict(r["spec"])
                        spec2["_retried"] = True
                        spec2["_first_stall"] = tail[-1200:]
                        RETRIED.append(spec2.get("name"))
                        pending.append((r["i"], spec2))
                        continue
                    results[r["i"]] = {"watchdog": True, "spec_name": r["spec"].get("name"),
                                       "log_tail": (r["spec"].get("_first_stall", "") + "\n--- second attempt ---\n" + tail)}
                else:
                    still.append(r)
                continue
            r["log"].close()
            if os.path.exists(r["of"]):
                with open(r["of"]) as f:
                    results[r["i"]] = ser.loads(f.read())
                results[r["i"]]["shard_wall_s"] = round(time.time() - r["t0"], 1)
            else:
                tail = open(os.path.join(workdir, "log%d.txt" % r["i"])).read()[-3000:]
                results[r["i"]] = {"crashed": True, "rc": rc, "log_tail": tail, "spec_name": r["spec"].get("name")}
        running = still
    return results


def merge_counters(dst, src):
    for k, v in src.items():
        if isinstance(v, dict):
            merge_counters(dst.setdefault(k, {}), v)
        elif isinstance(v, bool):
            dst[k] = bool(dst.get(k, False)) or v
        elif isinstance(v, (int, float)):
            if k.startswith("max_"):
                dst[k] = max(dst.get(k, v), v)
            elif k.startswith("min_"):
                dst[k] = min(dst.get(k, v), v)
            else:
                dst[k] = dst.get(k, 0) + v
        elif isinstance(v, list):
            cur = dst.setdefault(k, [])
            for x in v:
                if x not in cur and len(cur) < 400:
                    cur.append(x)
        else:
            dst[k] = v


def main(argv=None):
    ap = argparse.ArgumentParser()
    ap.add_argument("prop")
    ap.add_argument("--tier", default=os.environ.get("VERIF_TIER", "quick"), choices=["quick", "thorough"])
    ap.add_argument("--replay", default=None)
    a = ap.parse_args(argv)
    prop = a.prop.upper()
    seed = int(os.environ.get("VERIF_SEED", "0") or 0)
    ensure_deps()
    sys.path.insert(0, os.path.join(HERE, ".deps"))
    mod = importlib.import_module("ticcmon.checks.%s" % prop.lower())
    t0 = time.time()
    workroot = os.path.join(HERE, ".work")
    os.makedirs(workroot, exist_ok=True)
    workdir = tempfile.mkdtemp(prefix="%s_" % prop, dir=workroot)
    try:
        if a.replay:
            with open(a.replay) as f:
                rep = ser.loads(f.read())
            specs = [dict(name="replay", mode=rep.get("mode", "interp"), replay=rep["case"], env=rep.get("env"))]
            results = run_shards(prop, specs, workdir, timeout=3600)
            r = results[0]
            if r.get("crashed") or r.get("watchdog"):
                print("INCONCLUSIVE property=%s reason=replay shard failed: %s" % (prop, str(r)[:500]))
                return 2
            for v in r.get("violations", []):
                print("  violation: %s" % v["msg"])
            for kf in r.get("known", []):
                print("  known-finding mechanism: %s %s" % (kf["key"], kf["msg"]))
            if r.get("violations"):
                print("VIOLATION property=%s replay=%s" % (prop, a.replay))
                return 1
            print("replay: no violation reproduced")
            return 0
        specs = mod.plan(a.tier, seed)
        timeout = getattr(mod, "SHARD_TIMEOUT", {}).get(a.tier, 1800)
        results = run_shards(prop, specs, workdir, timeout)
    finally:
        shutil.rmtree(workdir, ignore_errors=True)
    return finish(prop, mod, a.tier, seed, specs, results, time.time() - t0)


def finish(prop, mod, tier, seed, specs, results, wall):
    known_file = load_known().get(prop, {})
    merged = {"evaluations": 0, "violations": [], "known": [], "samples": [], "counters": {}, "nontrivial": set(),
              "inconclusive": [], "not_completed": {}}
    for spec, r in zip(specs, results):
        if r is None or r.get("crashed"):
            merged["inconclusive"].append("shard %s crashed: %s" % (spec.get("name"), (r or {}).get("log_tail", "")[-600:]))
            continue
        if r.get("watchdog"):
            merged["inconclusive"].append("shard %s hit its wall-clock watchdog; stacks shortly before: %s" % (spec.get("name"), r.get("log_tail", "")[-1800:]))
            continue
        merged["evaluations"] += int(r.get("evaluations", 0))
        merged["violations"].extend(r.get("violations", []))
        merged["known"].extend(r.get("known", []))
        for s in r.get("samples", []):
            if len(merged["samples"]) < 6:
                merged["samples"].append(s)
        merge_counters(merged["counters"], r.get("counters", {}))
        merge_counters(merged["not_completed"], r.get("not_completed", {}))
        merged["nontrivial"].update(r.get("nontrivial", []))
        merged["inconclusive"].extend(r.get("inconclusive", []))
    extra = mod.finalize(merged, tier) if hasattr(mod, "finalize") else {}
    extra = extra or {}
    merged["inconclusive"].extend(extra.get("inconclusive", []))
    merged["violations"].extend(extra.get("violations", []))
    for key in extra.get("nontrivial", []):
        merged["nontrivial"].add(str(key))

    # classify known findings: listed -> KNOWN-FINDING line; not listed -> violation
    known_lines = {}
    for kf in merged["known"]:
        if kf["key"] in known_file:
            d = known_lines.setdefault(kf["key"], {"n": 0, "msg": kf["msg"]})
            d["n"] += 1
        else:
            merged["violations"].append({"msg": "[unlisted finding %s] %s" % (kf["key"], kf["msg"]), "case": kf.get("case"),
                                         "mode": kf.get("mode", "interp")})
    # replays
    replay_paths = []
    rdir = os.path.join(os.environ.get("TICCMON_REPLAY_DIR") or os.path.join(HERE, "replays"), prop)
    for v in merged["violations"][:20]:
        os.makedirs(rdir, exist_ok=True)
        blob = ser.dumps({"property": prop, "msg": v["msg"], "case": v.get("case"), "mode": v.get("mode", "interp"),
                          "env": v.get("env"), "detail": v.get("detail")}, indent=1)
        name = hashlib.sha256(blob.encode()).hexdigest()[:12] + ".json"
        path = os.path.join(rdir, name)
        with open(path, "w") as f:
            f.write(blob)
        replay_paths.append(path)

    nontrivial = len(merged["nontrivial"])
    coverage = {
        "evaluations": int(merged["evaluations"]),
        "distinct_nontrivial": int(nontrivial),
        "rule": getattr(mod, "RULE", ""),
        "samples": [ser.plain(s) for s in merged["samples"]] or ["(no sample recorded)"],
        "monitor_counters": ser.plain(merged["counters"]),
        "not_completed": ser.plain(merged["not_completed"]),
        "shards": len(specs),
        "shards_rerun_after_a_wall_clock_stall": list(RETRIED),
        "shard_wall_s": {spec.get("name", "?"): (r or {}).get("shard_wall_s") for spec, r in zip(specs, results)},
        "known_findings_observed": {k: v["n"] for k, v in known_lines.items()},
        "inconclusive_reasons": merged["inconclusive"][:10],
    }
    for k, v in extra.items():
        if k not in ("inconclusive", "violations", "nontrivial"):
            coverage[k] = ser.plain(v)
    if merged["evaluations"] < 1:
        merged["inconclusive"].append("no evaluations")
    if nontrivial < 2:
        merged["inconclusive"].append("fewer than 2 distinct non-trivial cases")
    evidence = {
        "property_id": prop,
        "tier": tier,
        "seed": seed,
        "level": getattr(mod, "LEVEL", "exploration"),
        "coverage": coverage,
        "assumptions": list(getattr(mod, "ASSUMPTIONS", [])),
        "wall_s": round(wall, 2),
        "violations": len(merged["violations"]),
        "verdict": "violated" if merged["violations"] else ("inconclusive" if merged["inconclusive"] else "held_on_observed"),
    }
    evdir = os.environ.get("TICCMON_EVIDENCE_DIR") or os.path.join(HERE, "evidence")
    os.makedirs(evdir, exist_ok=True)
    with open(os.path.join(evdir, "%s.json" % prop), "w") as f:
        json.dump(evidence, f, indent=1, sort_keys=True)
        f.write("\n")

    print("%s tier=%s seed=%d evaluations=%d distinct_nontrivial=%d wall=%.1fs" % (
        prop, tier, seed, merged["evaluations"], nontrivial, wall))
    for k, v in known_lines.items():
        print("KNOWN-FINDING: property=%s %s (%d observations) %s" % (prop, k, v["n"], known_file.get(k, "")))
    if merged["violations"]:
        seen = set()
        for v, p in zip(merged["violations"], replay_paths):
            key = v["msg"][:80]
            if key in seen:
                continue
            seen.add(key)
            print("  witness: %s" % v["msg"][:600])
        for p in replay_paths[:5]:
            print("VIOLATION property=%s replay=%s" % (prop, p))
        return 1
    if merged["inconclusive"]:
        for r in merged["inconclusive"][:5]:
            print("INCONCLUSIVE property=%s reason=%s" % (prop, r[:600]))
        return 2
    print("HELD property=%s on everything observed" % prop)
    return 0


if __name__ == "__main__":
    sys.exit(main())
