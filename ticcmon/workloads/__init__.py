"""Workload generators (deterministic functions of a JSON-able description)."""
