"""Series, hyper-parameter and covariance generators.  Every generator is a deterministic function
of a small JSON-able dict so that a case can be replayed from its description."""
import math

import numpy as np

FLAVORS = ["plain", "plain", "plain", "uniform_scale", "sensor_scale", "const_sensor", "dup_rows",
           "corr", "int", "float32", "fortran", "strided", "readonly", "baseline", "colslice", "rowstep", "idle", "int_translate", "sensor_range"]


def regime_series(rng, T, N, n_reg=2, seg=20, scale=1.0, weak=False):
    mixes = [rng.normal(size=(N, N)) + np.eye(N) * rng.uniform(0.2, 1.5) for _ in range(n_reg)]
    offs = [rng.normal(size=N) * 3 for _ in range(n_reg)]
    if weak:
        # regimes that differ only slightly per sample: where the labelling should switch is decided by sums over many points
        mixes = [np.eye(N) for _ in range(n_reg)]
        offs = [np.full(N, 0.35 * r_) for r_ in range(n_reg)]
    out = np.zeros((T, N))
    t = 0
    r = 0
    while t < T:
        L = min(seg + int(rng.integers(0, seg + 1)), T - t)
        z = rng.normal(size=(L, N))
        out[t:t + L] = z @ mixes[r] + offs[r]
        t += L
        r = (r + 1) % n_reg
    return out * scale


def make_series(d):
    """d: dict(seed, T, N, n_reg, seg, scale, flavor) -> ndarray (T, N)."""
    rng = np.random.default_rng([int(d["seed"]), 7919])
    T, N = int(d["T"]), int(d["N"])
    x = regime_series(rng, T, N, int(d.get("n_reg", 2)), int(d.get("seg", 20)), 1.0, weak=bool(d.get("weak")))
    fl = d.get("flavor", "plain")
    if fl == "uniform_scale":
        x = x * float(d.get("scale", 1.0))
    elif fl == "sensor_scale":
        x = x * (10.0 ** rng.uniform(-float(d.get("logscale", 6)), float(d.get("logscale", 6)), size=N))
    elif fl == "sensor_range":
        # sensors in very different units: magnitudes spread evenly over nine to twelve decades inside one series
        half = float(rng.choice([4.5, 5.0, 6.0]))
        x = x * rng.permutation(10.0 ** np.linspace(-half, half, N) if N > 1 else np.ones(1))
    elif fl == "baseline":
        # every sensor rides on a large constant level compared with its fluctuation (|mean|/std 1e4..1e7)
        x = x + (10.0 ** rng.uniform(4, 7, size=N)) * rng.choice([-1.0, 1.0], size=N)
    elif fl == "const_sensor":
        x[:, 0] = 5.0
    elif fl == "dup_rows":
        q = max(2, T // 4)
        x = np.repeat(x[:q], int(math.ceil(T / q)), axis=0)[:T]
    elif fl == "corr":
        if N > 1:
            x[:, -1] = x[:, 0]
    elif fl == "int":
        x = np.round(x * 3).astype(np.int64)
    elif fl == "float32":
        x = x.astype(np.float32)
    elif fl == "fortran":
        x = np.asfortranarray(x)
    elif fl == "strided":
        big = np.zeros((T * 2, N * 2))
        big[::2, ::2] = x
        x = big[::2, ::2]
    elif fl == "colslice":
        wide = np.zeros((T, N + 2))
        wide[:, :N] = x
        wide[:, N:] = 123.0
        x = wide[:, :N]
    elif fl == "rowstep":
        tall = np.full((2 * T, N), -77.0)
        tall[::2] = x
        x = tall[::2]
    elif fl == "idle":
        # the recording idles at a constant level for stretches of 35-90 samples (identical consecutive windows, identical cost rows)
        t = int(rng.integers(0, 10))
        while t < T - 1:
            L = int(rng.integers(35, 90))
            x[t:t + L] = x[t]
            t += L + int(rng.integers(5, 40))
    elif fl == "int_translate":
        # integer-valued data whose second half is the first half moved by a constant: regimes that are exact translates of each other
        x = np.round(x * 3)
        h = T // 2
        x[h:2 * h] = x[:h] + 16.0
    elif fl == "readonly":
        x = np.array(x)
        x.flags.writeable = False
    return x


def load_fixture(name):
    """The repository's own pickled test data (single: (359,4) array; multi: list of 10 series)."""
    import os
    import pickle
    root = os.environ.get("FAST_TICC_REPO", "/repo")
    fn = {"single": "single_trajectory_features.pkl", "multi": "multiple_trajectory_features.pkl"}[name]
    with open(os.path.join(root, "tests", "test_data", fn), "rb") as f:
        return pickle.load(f)


def make_data(d):
    """Single series (T int) or list of series (T list)."""
    if d.get("gen") == "reshape":
        # one buffer (same bytes) viewed under the requested shape
        buf = np.random.default_rng([int(d["seed"]), 53]).normal(size=int(d["total"]))
        return buf.reshape(int(d["T"]), int(d["N"]))
    if d.get("gen") == "donorpair":
        # two sensors, three stretches: a regime with strongly correlated sensors, a regime with independent sensors of somewhat larger
        # variance (covariances of similar Frobenius norm whose ranking depends on the off-diagonal entries being counted in full),
        # and a short third stretch
        rng = np.random.default_rng([int(d["seed"]), 59])
        n0, n1, n2 = [int(v) for v in d["sizes"]]
        rho, s = float(d["rho"]), float(d["s"])
        L0 = np.linalg.cholesky(np.array([[1.0, rho], [rho, 1.0]]))
        a = rng.normal(size=(n0, 2)) @ L0.T
        b = rng.normal(size=(n1, 2)) * np.sqrt(s) + 6.0
        c = rng.normal(size=(n2, 2)) * np.sqrt(s) + 6.0
        return np.vstack([a, b, c]) * float(d.get("unit", 1.0))
    if d.get("gen") == "fixture":
        data = load_fixture(d["name"])
        if isinstance(data, list):
            return [np.asarray(x, dtype=np.float64) for x in data[:int(d.get("nseries", len(data)))]]
        return np.asarray(data, dtype=np.float64)
    if isinstance(d["T"], (list, tuple)):
        out = []
        for i, t in enumerate(d["T"]):
            dd = dict(d)
            dd["T"] = t
            dd["seed"] = int(d["seed"]) * 1000 + i
            out.append(make_series(dd))
        if d.get("nan_gap") and len(out) > 1:
            # a missing sample near the start of a later series (a gap must never be bridged with another recording's values)
            tgt = np.array(out[-1], dtype=np.float64)
            tgt[min(1, tgt.shape[0] - 1), 0] = np.nan
            out[-1] = tgt
        return out
    return make_series(d)


SCALAR_FORMS = {
    "float": float,
    "int": int,
    "np.float64": np.float64,
    "np.float32": np.float32,
    "np.float16": np.float16,
    "np.longdouble": np.longdouble,
    "np.int64": np.int64,
    "np.int32": np.int32,
    "np.uint8": np.uint8,
}


def make_beta(b, n_points):
    """b: dict(form, value[, seed]).  Vector forms have one entry per stacked point."""
    form = b["form"]
    if form in SCALAR_FORMS:
        return SCALAR_FORMS[form](b["value"])
    if form == "vector_const":
        return np.full(n_points, float(b["value"]))
    if form == "vector_const_f32":
        return np.full(n_points, float(b["value"]), dtype=np.float32)
    if form == "vector_rand":
        rng = np.random.default_rng([int(b.get("seed", 0)), 31])
        v = rng.uniform(0, float(b["value"]), size=n_points)
        v[rng.random(n_points) < 0.15] = 0.0
        return v
    raise ValueError(form)


def make_lambda(l, nw):
    form = l["form"]
    if form in SCALAR_FORMS:
        return SCALAR_FORMS[form](l["value"])
    if form == "matrix_const":
        return np.full((nw, nw), float(l["value"]))
    if form == "matrix_const_f32":
        return np.full((nw, nw), float(l["value"]), dtype=np.float32)
    if form == "matrix_const_be":
        return np.full((nw, nw), float(l["value"])).astype(">f8")       # non-native byte order
    if form == "matrix_rand":
        rng = np.random.default_rng([int(l.get("seed", 0)), 37])
        L = rng.uniform(0, float(l["value"]), size=(nw, nw))
        return (L + L.T) / 2
    raise ValueError(form)


def make_init_labels(spec):
    """spec: dict(kind, ...) -> callable(K, data) -> list of labels."""
    kind = spec["kind"]

    def f(K, data):
        K = int(K)          # the library passes the caller's cluster count on as given (possibly a narrow NumPy integer)
        T = int(data.shape[0])
        if kind == "raise":
            from ticcmon import inject
            raise inject.make_exc(spec["cls"], spec["msg"])
        if kind == "alternating":
            return [i % K for i in range(T)]
        if kind == "blocks":
            return [min(K - 1, (i * K) // T) for i in range(T)]
        if kind == "giant":
            # everything in cluster 0 except `small` points each for the others
            small = int(spec.get("small", 2))
            lab = [0] * T
            p = T - 1
            for k in range(1, K):
                for _ in range(small):
                    if p > 0:
                        lab[p] = k
                        p -= 1
            return lab
        if kind == "shuffled":
            rng = np.random.default_rng([int(spec.get("seed", 0)), 41])
            lab = [i % K for i in range(T)]
            rng.shuffle(lab)
            return [int(v) for v in lab]
        if kind == "explicit":
            return list(spec["labels"])
        raise ValueError(kind)
    return f


def make_label_script(spec, T, K):
    """Scripted labellings per round.  spec: dict(pattern=[...symbols...], kind=...).

    Each symbol names a labelling of the T points; all symbols give every cluster at least two contiguous runs of points so that
    no repopulation is triggered unless asked for.  'flip1' style symbols differ from the base labelling in exactly c points."""
    base = [min(K - 1, (i * K) // T) for i in range(T)]                     # K equal blocks
    out = []
    for sym in spec["pattern"]:
        if sym == "A":
            lab = list(base)
        elif sym == "B":
            lab = [(l + 1) % K for l in base]
        elif sym == "C":
            lab = [(K - 1 - l) for l in base] if K > 2 else [l if i % 7 else 1 - l for i, l in enumerate(base)]
            if lab == base or lab == [(l + 1) % K for l in base]:
                lab = [l if i % 5 else (l + 1) % K for i, l in enumerate(base)]
        elif isinstance(sym, str) and sym.startswith("A+"):
            # the base labelling with c single points moved to the next cluster (c = int after '+'), interior points only
            c = int(sym[2:])
            lab = list(base)
            step = max(1, T // (c + 1))
            for j in range(c):
                i = min(T - 2, 1 + (j + 1) * step - step // 2)
                lab[i] = (lab[i] + 1) % K
        elif sym in ("D3a", "D3b"):
            # K = 3: two large clusters and a small third one (D3a); the third one's points relabelled into the second (D3b)
            n0, n1, n2 = [int(v) for v in spec["sizes"]]
            lab = [0] * n0 + [1] * n1 + ([2] * n2 if sym == "D3a" else [1] * n2)
            lab = (lab + [1] * T)[:T]
        elif sym in ("P5", "Q5"):
            # K = 5, sizes chosen against min_cluster_size m: clusters 0 and 1 hold between 2m and 3m points (each can donate exactly
            # once), clusters 2 and 3 two points each, cluster 4 two.  Q5 moves the points of 2 and 3 into 4: clusters 0 and 1 are not
            # touched by that relabelling, 2 and 3 must both be refilled next round - from two different donors.
            a, b = [int(v) for v in spec["sizes"]]
            lab = [0] * a + [1] * b + [4] * 2 + ([2] * 2 + [3] * 2 if sym == "P5" else [4] * 4)
            lab = lab + [4] * (T - len(lab))
            lab = lab[:T]
        elif sym == "E":
            # empties the last cluster but for one point: forces a repopulation in the next round
            lab = [l if l < K - 1 else K - 2 for l in base]
            lab[-1] = K - 1
        else:
            raise ValueError(sym)
        out.append([int(v) for v in lab])
    return out


# --------------------------------------------------------------------------- covariances

def make_covariance(d):
    """d: dict(seed, n, kind, scale) -> symmetric PSD matrix."""
    rng = np.random.default_rng([int(d["seed"]), 43])
    n = int(d["n"])
    kind = d["kind"]
    A = rng.normal(size=(n, n))
    if kind == "full":
        S = A @ A.T / n + 0.05 * np.eye(n)
    elif kind == "rankdef":
        B = rng.normal(size=(n, max(1, n // 3)))
        S = B @ B.T / n
    elif kind == "diag":
        S = np.diag(rng.uniform(0.01, 50, size=n))
    elif kind == "corr":
        v = rng.normal(size=(n, 1))
        S = v @ v.T + 1e-4 * np.eye(n)
    elif kind == "spectrum":  # eigenvalues inside [0.25, 4]
        Q, _ = np.linalg.qr(A)
        sub = int(d.get("sub", 0))
        if sub == 0:
            ev = rng.uniform(0.25, 4, size=n)
        elif sub == 1:
            ev = np.where(rng.random(n) < 0.5, 0.25, 4.0)
        elif sub == 2:
            ev = np.full(n, 0.25)
            ev[0] = 4.0
        else:
            ev = np.exp(rng.uniform(math.log(0.25), math.log(4), size=n))
        ev = np.clip(ev, 0.25 * (1 + 1e-9), 4 * (1 - 1e-9))
        S = (Q * ev) @ Q.T
    elif kind == "samples":  # sample covariance of few points (rank deficient when pts <= n)
        pts = int(d.get("pts", n))
        X = rng.normal(size=(pts, n))
        S = np.atleast_2d(np.cov(X.T, bias=True))
    elif kind == "toeplitz_var":  # covariance of stacked windows of a VAR(1) process
        N = int(d["N"])
        W = int(d["W"])
        Aa = rng.normal(size=(N, N))
        Aa = 0.6 * Aa / max(1e-9, np.max(np.abs(np.linalg.eigvals(Aa))))
        x = np.zeros((4000, N))
        e = rng.normal(size=(4000, N))
        for t in range(1, 4000):
            x[t] = x[t - 1] @ Aa.T + e[t]
        v = np.lib.stride_tricks.sliding_window_view(x, (W, N)).reshape(-1, W * N)
        S = np.atleast_2d(np.cov(v.T))
    elif kind == "zero":
        S = np.zeros((n, n))
    else:
        raise ValueError(kind)
    S = (S + S.T) / 2 * float(d.get("scale", 1.0))
    return S
