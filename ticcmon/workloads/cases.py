"""Generators of end-to-end cases (JSON-able descriptions consumed by ticcmon.e2e.run_case)."""
import numpy as np

from ticcmon.workloads import data as wd

NW_CAP = [12]          # set per shard (quick 12, thorough 24): bounds the cost of one optimisation task
BETAS = [0, 0.5, 1, 5, 50, 400]
LAMS = [0, 1e-3, 0.11, 0.5, 1, 5]


def _beta(rng, allow_vector=True, forms=("float", "float", "float", "int", "np.float64")):
    v = BETAS[int(rng.integers(0, len(BETAS)))]
    u = rng.random()
    if allow_vector and u < 0.2:
        return dict(form="vector_rand", value=float(max(v, 1)), seed=int(rng.integers(0, 10 ** 6)))
    if allow_vector and u < 0.3:
        return dict(form="vector_const", value=float(v))
    form = forms[int(rng.integers(0, len(forms)))]
    if form == "int":
        v = int(v)
    return dict(form=form, value=v)


def _lam(rng, allow_matrix=True):
    v = LAMS[int(rng.integers(0, len(LAMS)))]
    u = rng.random()
    if allow_matrix and u < 0.15:
        return dict(form="matrix_const", value=float(v))
    if allow_matrix and u < 0.3:
        return dict(form="matrix_rand", value=float(max(v, 0.05)), seed=int(rng.integers(0, 10 ** 6)))
    return dict(form="float", value=float(v))


def gen_single(rng, profile="general"):
    while True:
        N = int(rng.integers(1, 5))
        W = int(rng.integers(1, 7))
        if N * W <= NW_CAP[0]:
            break
    K = int(rng.integers(2, 7))
    if profile == "small":
        N = int(rng.integers(1, 3))
        W = int(rng.integers(1, 4))
        K = int(rng.integers(2, 4))
    n_reg = int(rng.integers(1, 5))
    Tmin = max(K + W + 2, 3 * K)
    T = int(rng.integers(Tmin, Tmin + 130))
    flavor = wd.FLAVORS[int(rng.integers(0, len(wd.FLAVORS)))]
    if profile == "hostile":
        flavor = ["uniform_scale", "sensor_scale", "const_sensor", "dup_rows", "corr", "sensor_range", "baseline", "idle"][int(rng.integers(0, 8))]
    if profile == "plain":
        flavor = "plain"
    d = dict(gen="regime", seed=int(rng.integers(0, 2 ** 31)), T=T, N=N, n_reg=n_reg, seg=int(rng.integers(8, 40)),
             scale=float(10 ** rng.uniform(-6, 6)), flavor=flavor, logscale=6)
    case = dict(front="single", data=d, W=W, K=K, beta=_beta(rng), lam=_lam(rng),
                m=int(rng.integers(1, 9)), limit=int(rng.choice([1, 2, 3, 20, 20, 60])), biased=bool(rng.integers(0, 2)),
                eps=float(rng.choice([0, 0, 0, 1e-6, 1e-3])), nproc=1, mp=False, rng_seed=int(rng.integers(0, 2 ** 31)), init=None)
    if profile == "empty_final":
        case["K"] = int(rng.integers(3, 7))
        case["data"]["n_reg"] = 1
        case["beta"] = dict(form="float", value=float(rng.choice([50, 400, 2000])))
        case["limit"] = int(rng.choice([1, 2, 3]))
        case["eps"] = 0.0
    if profile == "repop":
        kinds = ["giant", "giant", "alternating", "blocks", "shuffled"]
        kind = kinds[int(rng.integers(0, len(kinds)))]
        case["init"] = dict(kind=kind, small=int(rng.integers(1, 3)), seed=int(rng.integers(0, 1000)))
        case["limit"] = int(rng.choice([2, 3, 20]))
        case["m"] = int(rng.integers(1, 6))
        case["biased"] = True if kind == "giant" and case["init"]["small"] == 1 else case["biased"]
    if profile == "converge":
        case["limit"] = int(rng.choice([20, 60]))
        case["data"]["n_reg"] = int(rng.integers(2, 4))
        case["K"] = int(rng.integers(2, 4))
        case["eps"] = 0.0
    if profile == "hostile":
        case["eps"] = 0.0 if rng.random() < 0.8 else case["eps"]
    if case["eps"] > 0 and rng.random() < 0.5:
        case["data"]["flavor"] = "plain"
    case["biased_form"] = ["bool", "bool", "np.bool", "int"][int(rng.integers(0, 4))]
    # integer hyper-parameters (W, K, limit, m, processors) as Python ints or NumPy integer scalars
    case["int_form"] = ["int", "int", "int", "np.int64", "np.int32", "np.uint8"][int(rng.integers(0, 6))]
    if rng.random() < 0.15:
        # real multi-process pool; the first rounds' tasks are delayed so that they complete in reverse submission order
        K_ = case["K"]
        case["mp"] = True
        case["nproc"] = int(rng.integers(2, K_ + 2))
        case["task_plan"] = {str(r_ * K_ + k_): {"delay": 0.025 * (K_ - 1 - k_)} for r_ in range(2) for k_ in range(K_) if k_ < K_ - 1}
    if rng.random() < 0.08:
        # the caller's program uses another start method for worker processes (the default on other platforms)
        case["start_method"] = ["spawn", "forkserver"][int(rng.integers(0, 2))]
    return case


def gen_large(rng, kind):
    """Cases beyond the usual small sizes: long series, many clusters, many sensors / wide windows (size-threshold behaviour)."""
    case = gen_single(rng, "plain")
    case["eps"] = 0.0
    case["init"] = None
    case["task_plan"] = {}
    case["mp"] = False
    case["nproc"] = 1
    case["biased"] = True
    if kind == "long":
        case["data"].update(T=int(rng.integers(1100, 2600)), N=int(rng.integers(1, 3)), n_reg=3, seg=int(rng.integers(40, 200)))
        case["W"] = int(rng.integers(1, 3))
        case["K"] = int(rng.integers(2, 5))
        case["limit"] = int(rng.choice([2, 6]))
        case["m"] = int(rng.choice([5, 20, 60]))
    elif kind == "verylong":
        # beyond 4096 and 8192 stacked windows (block sizes of chunked / rebased kernels), clusters of thousands of windows
        case["data"].update(T=int(rng.choice([4500, 6000, 9000, 13000])), N=1, n_reg=2, seg=int(rng.integers(300, 1500)))
        case["W"] = 1
        case["K"] = 2
        case["limit"] = 3
        case["m"] = 20
        case["beta"] = dict(form="float", value=float(rng.choice([5.0, 400.0, 3000.0])))
        case["lam"] = dict(form="float", value=0.11)
        if rng.random() < 0.6:
            case["data"]["weak"] = True            # weak per-point evidence against a large switching cost
            case["beta"] = dict(form="float", value=float(rng.choice([30.0, 100.0])))
            case["init"] = dict(kind="blocks")
    elif kind in ("manyrounds", "slowdrift"):
        # a small problem kept from converging for dozens of rounds by forced labellings, then left to finish on its own:
        # behaviour that only sets in after many rounds shows in the natural rounds and in the final result
        case["data"].update(T=int(rng.integers(60, 120)), N=int(rng.integers(1, 3)), n_reg=2, seg=int(rng.integers(8, 30)))
        case["W"] = int(rng.integers(1, 3))
        case["K"] = int(rng.integers(2, 4))
        case["m"] = 2
        n_forced = int(rng.choice([12, 31, 33, 40, 52, 70]))
        case["limit"] = n_forced + int(rng.choice([1, 2, 30]))
        case["beta"] = dict(form="float", value=float(rng.choice([0.5, 2.0, 8.0])))
        case["init"] = dict(kind="blocks")
        syms = ["A", "B", "C"]
        case["label_script"] = dict(pattern=[syms[j % 3] for j in range(n_forced)], then="natural")
        if kind == "slowdrift" or rng.random() < 0.25:
            # slow drift: a long series whose forced labellings differ from round to round in a handful of points only, for more
            # than a hundred rounds (shortcuts for "nearly settled" clusters)
            case["data"].update(T=int(rng.integers(700, 1100)), N=1, n_reg=2, seg=int(rng.integers(150, 400)))
            case["W"] = 1
            case["K"] = 2
            n_forced = int(rng.choice([101, 104, 120]))
            case["limit"] = n_forced + int(rng.choice([1, 2]))
            syms = ["A+1", "A+2", "A+3"]
            case["label_script"] = dict(pattern=[syms[j % 3] for j in range(n_forced)], then="natural")
    elif kind == "donorrank":
        # one cluster to refill, two eligible donors whose covariance spreads are close and differ in how much of the spread sits off
        # the diagonal (forced for two rounds so that both donors carry fitted MRFs, then the run continues on its own)
        m = int(rng.integers(6, 12))
        n0, n1, n2 = int(rng.integers(150, 260)), int(rng.integers(150, 260)), int(rng.integers(2, 5))
        case["data"] = dict(gen="donorpair", seed=int(rng.integers(0, 2 ** 31)), T=n0 + n1 + n2, N=2, sizes=[n0, n1, n2],
                            rho=0.9, s=float(rng.choice([1.24, 1.27, 1.3])),
                            unit=float(rng.choice([1.0, 1.0, 1.0, 1e3])), flavor="plain")
        case["W"] = 1
        case["K"] = 3
        case["m"] = m
        case["limit"] = int(rng.choice([3, 4]))
        case["lam"] = dict(form="float", value=float(rng.choice([0.0, 0.005])))
        case["beta"] = dict(form="float", value=float(rng.choice([1.0, 10.0])))
        case["init"] = dict(kind="blocks")
        case["label_script"] = dict(pattern=["D3a", "D3b"], then="natural", sizes=[n0, n1, n2])
    elif kind == "doublerepop":
        # two clusters must be refilled in the same round from two different donors, neither of which was touched by the relabelling
        # just before (forced for two rounds, then the run continues on its own)
        m = int(rng.integers(4, 9))
        a, b = int(rng.integers(2 * m, 3 * m)), int(rng.integers(2 * m, 3 * m))
        W = int(rng.integers(1, 3))
        case["data"].update(T=a + b + 6 + W - 1, N=int(rng.integers(1, 3)), n_reg=3, seg=int(rng.integers(6, 14)))
        case["W"] = W
        case["K"] = 5
        case["m"] = m
        case["limit"] = int(rng.choice([3, 3, 4, 20]))
        case["beta"] = dict(form="float", value=float(rng.choice([0.5, 3.0, 20.0])))
        case["init"] = dict(kind="blocks")
        case["label_script"] = dict(pattern=["P5", "Q5"], then="natural", sizes=[a, b])
    elif kind in ("manyK", "manyK11"):
        case["data"].update(T=int(rng.integers(300, 520)), N=int(rng.integers(1, 3)), n_reg=6, seg=12)
        case["W"] = 1 if case["data"]["N"] == 2 else int(rng.integers(1, 3))
        case["K"] = int(rng.integers(8, 15)) if kind == "manyK" else int(rng.integers(11, 15))   # two-digit cluster ids
        case["limit"] = int(rng.choice([2, 4]))
        case["m"] = int(rng.integers(2, 6))
        case["beta"] = dict(form="float", value=float(rng.choice([0.5, 5.0])))
    elif kind == "bigNW":
        N, W = [(8, 1), (2, 9), (5, 3), (1, 16), (9, 2)][int(rng.integers(0, 5))]
        case["data"].update(T=int(rng.integers(70, 110)) + W, N=N, n_reg=2, seg=20)
        case["W"] = W
        case["K"] = 2
        case["limit"] = 2
        case["m"] = 3
        case["lam"] = dict(form="float", value=float(rng.choice([0.11, 0.5])))
        if case["beta"]["form"].startswith("vector"):
            case["beta"] = dict(form="float", value=5.0)
    if case["beta"]["form"].startswith("vector"):
        case["beta"]["seed"] = int(rng.integers(0, 10 ** 6))
    return case


def gen_joint(rng, profile="general"):
    case = gen_single(rng, "plain" if profile in ("general", "joint") else profile)
    ns = int(rng.integers(1, 7))
    if profile == "joint":
        ns = int(rng.integers(2, 7))
    W, K = case["W"], case["K"]
    Ts = [int(W + rng.integers(3, 60)) for _ in range(ns)]
    if rng.random() < 0.12:
        # a dozen short series (more than ten: anything keyed or sorted by a series number shows here)
        ns = int(rng.integers(11, 15))
        Ts = [int(W + rng.integers(3, 16)) for _ in range(ns)]
    if rng.random() < 0.2 and ns > 1:
        Ts = [Ts[0]] * ns                          # all series of one shape
    if rng.random() < 0.3 and ns > 1:
        Ts[int(rng.integers(0, ns))] = W           # a series with exactly W rows (one window)
    while sum(t - W + 1 for t in Ts) < max(K + 2, 3 * K):
        Ts[int(rng.integers(0, ns))] += 10
    case["front"] = "joint"
    case["data"]["T"] = Ts
    case["container"] = ["list", "list", "tuple", "generator"][int(rng.integers(0, 4))]
    b = case["beta"]
    if b["form"].startswith("vector") and profile != "joint_vector":
        case["beta"] = dict(form="float", value=float(b["value"]))
    return case
