"""Shared shard body for the checks that are decided on traced end-to-end runs."""
import numpy as np

from ticcmon import e2e
from ticcmon.checks import common
from ticcmon.workloads import cases as wc

# (file relative to src/fast_ticc, regex) anchors whose execution is reported as evidence
ANCHORS = {
    "C04": [("data_preparation.py", r"front_length = "), ("front_end.py", r"_split_combined_result\(master_result"),
            ("data_preparation.py", r"label_lists\.append")],
    "C05": [("likelihood.py", r"slogdet|np\.log\(np\.linalg\.det"), ("main_loop.py", r"likelihood\.point_log_likelihood")],
    "C06": [("main_loop.py", r"all_log_likelihood = list"), ("main_loop.py", r"if len\(single_cluster_log_likelihood\) > 0 else 0")],
    "C07": [("data_preparation.py", r"template\[.*\] = 0"), ("front_end.py", r"label_switching_cost \* lsc_template")],
    "C09": [("main_loop.py", r"if current_iteration > 0"), ("main_loop.py", r"^\s+break"), ("cluster_maintenance.py", r"_move_random_points\(")],
    "C12": [("cluster_maintenance.py", r"bias=use_biased_covariance"), ("graphical_lasso.py", r"pool\.apply_async")],
    "C13": [("containers/model_state.py", r"self\._update_cluster_membership\(\)"), ("cluster_label_assignment.py", r"cluster\.deep_copy\(\) for cluster")],
    "C16": [("cluster_metrics.py", r"non_zero_params \+= cluster_params")],
    "C17": [("cluster_metrics.py", r"global_center = ")],
    # (solver lines run inside pool workers and are not visible to the parent's line monitor)
    "C03": [("graphical_lasso.py", r"filtered\[small_element_indices\] = 0"), ("graphical_lasso.py", r"np\.linalg\.inv\(")],
}


def run_cases(res, case_iter, props, nontrivial, sample_every=50, coverage_props=()):
    """Run each case, evaluate the oracles, report violations of `props` only.

    nontrivial: callable(run, issues) -> key or None.
    """
    props = set(props)
    anchors = {}
    for idx, case in enumerate(case_iter):
        if coverage_props and idx < 6:
            case = dict(case)
            case["coverage"] = True
        try:
            run = e2e.run_case(case)
        except Exception as e:
            res.inconclusive.append("harness failed to run a case: %s: %s" % (type(e).__name__, str(e)[:300]))
            continue
        res.count("runs_started")
        if run.cov is not None:
            for p in coverage_props:
                for name, state in run.cov.anchors(ANCHORS.get(p, [])).items():
                    prev = anchors.get(name)
                    anchors[name] = "hit" if "hit" in (prev, state) else state
        if run.exc is not None:
            if run.exc_expected:
                res.skipped(run.exc_tag.split(":")[0])
            else:
                res.skipped("UNEXPECTED " + run.exc_tag)
                res.note("unexpected_exceptions", run.exc_tag)
                res.note("unexpected_exception_cases", {"tag": run.exc_tag, "case": case})
            I = e2e.evaluate(run)      # what was recorded before the exception still counts
            _report(res, I, props, case, completed=False)
            continue
        res.evaluations += 1
        res.count("runs_completed")
        try:
            I = e2e.evaluate(run)
        except Exception as e:      # an oracle that cannot digest what it recorded decides nothing for this run
            import traceback
            res.inconclusive.append("oracle error on a completed run: %s" % traceback.format_exc()[-600:])
            continue
        _report(res, I, props, case, completed=True)
        key = nontrivial(run, I)
        if key:
            res.nontriv(common.h(case, key))
        if idx % sample_every == 0:
            res.sample(dict(case=case, rounds=I.counts.get("rounds"), labels_head=list(_labels(run))[:30]))
    if anchors:
        res.counters["anchors"] = anchors


def _labels(run):
    r = run.result
    if r is None:
        return []
    pl = r.point_labels
    if len(pl) and isinstance(pl[0], (list, tuple)):
        return [v for lst in pl for v in lst]
    return pl


def _report(res, I, props, case, completed):
    for k, v in I.counts.items():
        if k.startswith("max_"):
            res.maxi(k[4:], v)
        elif k not in ("rounds", "precondition_ok", "empty_final_clusters", "mp_pd_decisions"):
            res.count(k, v)
    if completed:
        res.count("rounds_total", I.counts.get("rounds", 0))
        if I.counts.get("empty_final_clusters", 0) > 0:
            res.count("runs_with_empty_final_cluster")
        if not I.counts.get("precondition_ok", 1):
            res.count("runs_precondition_not_met")
    for prop, msg in I.items:
        if prop in props:
            res.violation(msg, case)
        else:
            res.count("other_property_issue:" + prop)
    for prop, key, msg in I.known:
        if prop in props:
            res.known_finding(key, msg, case)
        else:
            res.count("other_property_known:" + prop)


def replay_case(res, case, props):
    run_cases(res, [case], props, lambda run, I: None)


def case_stream(seed, n, gens):
    """gens: list of (weight, callable(rng)) -> deterministic stream of n cases."""
    rng = np.random.default_rng(seed)
    w = np.array([g[0] for g in gens], dtype=float)
    w = w / w.sum()
    for i in range(n):
        g = gens[int(rng.choice(len(gens), p=w))][1]
        yield g(rng)
