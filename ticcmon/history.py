"""C13 history workload: random sequences of state operations against a shadow model that
implements the *documented* sharing semantics (shallow copies share cluster cells)."""
import random

import numpy as np

from ticcmon import instrument

ARR = ("stacked_data_mean", "empirical_covariance", "train_inverse", "computed_covariance")


class InlineResult:
    def __init__(self, value):
        self.value = value

    def get(self, timeout=None):
        return self.value


class InlinePool:
    """Stands in for multiprocessing.Pool in the optimisation phase (no processes needed here)."""

    def apply_async(self, func, args=(), kwds=None, callback=None, error_callback=None):
        return InlineResult(func(*args, **(kwds or {})))


class Cell:
    """Shadow of one ClusterParameters object."""

    def __init__(self, real):
        self.real = real
        self.members = list(real.member_points)
        self.arrays = {f: instrument._cp(getattr(real, f, None)) for f in ARR}


class Shadow:
    """Shadow of one ModelState: labels + list of cells (cells may be shared between shadows)."""

    def __init__(self, real, cells, labels):
        self.real = real
        self.cells = cells
        self.labels = None if labels is None else [int(x) for x in labels]

    def invariant_holds(self, K):
        if len(self.cells) != K:
            return False
        if self.labels is not None and any(l < 0 for l in self.labels):
            return False       # states with unlabelled points are not handed to phases (the phases require labels in [0,K))
        if self.labels is None:
            return all(len(c.members) == 0 for c in self.cells)
        return all(c.members == [i for i, l in enumerate(self.labels) if l == k] for k, c in enumerate(self.cells))


def compare(sh, K):
    """Real state vs its shadow.  Returns list of discrepancy strings."""
    out = []
    st = sh.real
    lab = st.point_labels
    if (lab is None) != (sh.labels is None) or (lab is not None and [int(x) for x in lab] != sh.labels):
        out.append("labels differ from what was assigned to this state")
    if len(st.clusters) != len(sh.cells):
        out.append("state has %d clusters, expected %d" % (len(st.clusters), len(sh.cells)))
        return out
    for k, (c, cell) in enumerate(zip(st.clusters, sh.cells)):
        if c is not cell.real:
            out.append("cluster object %d was replaced" % k)
            continue
        if list(c.member_points) != cell.members:
            out.append("cluster %d membership %s... differs from the shadow %s..." % (k, list(c.member_points)[:5], cell.members[:5]))
        for f in ARR:
            if not instrument._arr_equal(instrument._cp(getattr(c, f, None)), cell.arrays[f]):
                out.append("cluster %d %s changed" % (k, f))
    return out


def reachable_lists_and_arrays(st):
    lists = [st.point_labels, st.clusters] + [c.member_points for c in st.clusters]
    arrays = [getattr(c, f) for c in st.clusters for f in ARR + ("inverse_covariance",) if isinstance(getattr(c, f, None), np.ndarray)]
    for f in ("sparsity_weight", "label_switching_cost"):
        v = getattr(st.arguments, f)
        if isinstance(v, np.ndarray):
            arrays.append(v)
    for f in ("stacked_training_data", "point_log_likelihood"):
        v = getattr(st, f, None)
        if isinstance(v, np.ndarray) and v.ndim > 0:
            arrays.append(v)
    return [l for l in lists if l is not None], arrays


def deep_copy_shares(src, cp):
    """Structural check: a deep copy shares no list, cluster object, argument bundle or array memory."""
    out = []
    l1, a1 = reachable_lists_and_arrays(src)
    l2, a2 = reachable_lists_and_arrays(cp)
    ids = set(id(x) for x in l1)
    for x in l2:
        if id(x) in ids:
            out.append("a list is shared between the deep copy and its source")
            break
    if any(c1 is c2 for c1 in src.clusters for c2 in cp.clusters):
        out.append("a cluster object is shared")
    if cp.arguments is src.arguments:
        out.append("the argument bundle is the same object")
    for x in a1:
        for y in a2:
            if x.dtype != object and y.dtype != object and np.shares_memory(x, y):
                out.append("an array (shape %s) shares memory with the source" % (x.shape,))
                return out
    return out


def run_history(seed, steps_max=30, with_matrix_args=True):
    """Returns (violations list, stats dict)."""
    from fast_ticc.containers import model_state as ms, arguments
    from fast_ticc import cluster_maintenance as cm, graphical_lasso as gl, cluster_label_assignment as cla
    rng = random.Random(seed)
    nrng = np.random.default_rng(seed)
    K = rng.randint(2, 4)
    W = rng.randint(1, 2)
    N = rng.randint(1, 2)
    T = rng.randint(max(6, 3 * K), 30)
    m = rng.randint(1, 3)
    nw = N * W
    lam = 0.1
    beta = 1.0
    if with_matrix_args and rng.random() < 0.5:
        lam = np.full((nw, nw), 0.1)
        beta = np.full(T, 1.0)
    args = arguments.UserArguments(sparsity_weight=lam, iteration_limit=5, label_switching_cost=beta, min_cluster_size=m,
                                   min_meaningful_covariance=0, num_clusters=K, num_processors=1, window_size=W,
                                   biased_covariance=True)
    data = nrng.normal(size=(T, nw)) + nrng.integers(0, 3, size=(T, 1))
    st = ms.ModelState.empty_model(args, data)
    viol = []
    stats = {"steps": 0}

    def bump(k):
        stats[k] = stats.get(k, 0) + 1
    cells0 = [Cell(c) for c in st.clusters]
    root = Shadow(st, cells0, None)
    if compare(root, K):
        viol.append("fresh empty model inconsistent: %s" % compare(root, K)[:2])
    labels0 = [rng.randrange(K) for _ in range(T)]
    st.point_labels = list(labels0)
    root.labels = list(labels0)
    for k, cell in enumerate(root.cells):
        cell.members = [i for i, l in enumerate(labels0) if l == k]
    for c, cell in zip(st.clusters, root.cells):
        c.computed_covariance = np.eye(nw) * rng.random()
        cell.arrays["computed_covariance"] = c.computed_covariance.copy()
    live = [root]
    pool = InlinePool()
    nsteps = rng.randint(3, steps_max)
    trace = []
    for step in range(nsteps):
        sh = rng.choice(live)
        src = sh.real
        op = rng.choice(["assign", "assign", "assign_unlabelled", "assign_swap", "assign_swap", "assign_same", "assign_other_length", "shallow", "shallow_fresh_assign", "deep",
                         "deep_mutate", "repop", "stats", "optimise", "relabel", "full_round"])
        trace.append(op)
        try:
            if op == "assign":
                new = [rng.randrange(K) for _ in range(T)]
                if rng.random() < 0.3:
                    new = [0 if l == K - 1 else l for l in new]     # empties a cluster
                before = sh.labels
                src.point_labels = list(new)
                if new != before:
                    sh.labels = list(new)
                    for k, cell in enumerate(sh.cells):
                        cell.members = [i for i, l in enumerate(new) if l == k]
                bump("assign")
            elif op == "assign_unlabelled":
                # the documented "point not labeled" value: such points belong to no cluster
                new = [rng.randrange(K) if rng.random() < 0.8 else -1 for _ in range(T)]
                src.point_labels = list(new)
                if new != sh.labels:
                    sh.labels = list(new)
                    for k, cell in enumerate(sh.cells):
                        cell.members = [i for i, l in enumerate(new) if l == k]
                bump("assign_unlabelled")
            elif op == "assign_swap" and sh.labels is not None:
                # size-preserving relabelling: two interior points of different clusters trade labels (every cluster keeps its
                # size, its first and its last member) - the change a "cheap" membership comparison would miss
                new = list(sh.labels)
                cand = [i for i in range(1, T - 1)]
                rng.shuffle(cand)
                done_swap = False
                for i in cand:
                    for j in cand:
                        if new[i] != new[j]:
                            mi = [x for x, l in enumerate(new) if l == new[i]]
                            mj = [x for x, l in enumerate(new) if l == new[j]]
                            if i not in (mi[0], mi[-1]) and j not in (mj[0], mj[-1]):
                                new[i], new[j] = new[j], new[i]
                                done_swap = True
                                break
                    if done_swap:
                        break
                if done_swap:
                    src.point_labels = list(new)
                    sh.labels = list(new)
                    for k, cell in enumerate(sh.cells):
                        cell.members = [x for x, l in enumerate(new) if l == k]
                    bump("assign_swap")
            elif op == "assign_other_length" and sh.labels is not None:
                # a labelling of ANOTHER length that agrees with the current one on the common prefix (a model trained on part of a
                # recording is used to label the longer recording).  Done on a private copy that takes no further part in the history.
                n = src.shallow_copy()
                n.clusters = [c.deep_copy() for c in n.clusters]
                cur = list(sh.labels)
                if rng.random() < 0.6:
                    new = cur + [rng.randrange(K) for _ in range(rng.randrange(1, 12))]
                else:
                    new = cur[:max(1, len(cur) - rng.randrange(1, 6))]
                n.point_labels = list(new)
                got = list(n.point_labels) if n.point_labels is not None else None
                if got != new:
                    viol.append("after assigning %d labels to a state that held %d (equal on the common prefix) the state reports %s labels" % (
                        len(new), len(cur), len(got) if got is not None else None))
                else:
                    for k, c in enumerate(n.clusters):
                        want = [i for i, l in enumerate(new) if l == k]
                        if [int(x) for x in c.member_points] != want:
                            viol.append("after assigning a labelling of another length (%d -> %d points) cluster %d's members are not the points "
                                        "labelled %d" % (len(cur), len(new), k, k))
                            break
                bump("assign_other_length")
            elif op == "assign_same" and sh.labels is not None:
                src.point_labels = list(sh.labels)
                bump("assign_same")
            elif op == "shallow":
                n = src.shallow_copy()
                live.append(Shadow(n, list(sh.cells), sh.labels))
                if n.clusters is src.clusters:
                    viol.append("shallow_copy shares the cluster *list* with its source")
                bump("shallow")
            elif op == "shallow_fresh_assign":
                n = src.shallow_copy()
                n.clusters = [c.deep_copy() for c in n.clusters]
                nsh = Shadow(n, [Cell(c) for c in n.clusters], sh.labels)
                new = [rng.randrange(K) for _ in range(T)]
                n.point_labels = list(new)
                if new != nsh.labels:
                    nsh.labels = list(new)
                    for k, cell in enumerate(nsh.cells):
                        cell.members = [i for i, l in enumerate(new) if l == k]
                live.append(nsh)
                bump("shallow_fresh_assign")
            elif op in ("deep", "deep_mutate") and sh.labels is not None:
                n = src.deep_copy()
                shared = deep_copy_shares(src, n)
                for s_ in shared[:2]:
                    viol.append("deep_copy: " + s_)
                nsh = Shadow(n, [Cell(c) for c in n.clusters], n.point_labels)
                if nsh.labels != sh.labels or [c.members for c in nsh.cells] != [c.members for c in sh.cells]:
                    viol.append("deep_copy content differs from its source")
                bump("deep")
                if op == "deep_mutate":
                    # scribble over everything reachable from the copy; nothing else may change
                    n.point_labels[0:1] = [(n.point_labels[0] + 1) % K]
                    n.point_labels.append(0)
                    if isinstance(n.stacked_training_data, np.ndarray) and n.stacked_training_data.ndim:
                        n.stacked_training_data[...] = 7.0
                    for c in n.clusters:
                        c.member_points.append(99)
                        for f in ARR + ("inverse_covariance",):
                            v = getattr(c, f, None)
                            if isinstance(v, np.ndarray) and v.ndim and v.dtype != object:
                                v[...] = -1.0
                    for f in ("sparsity_weight", "label_switching_cost"):
                        v = getattr(n.arguments, f)
                        if isinstance(v, np.ndarray):
                            v[...] = 123.0
                    n.arguments.min_cluster_size = 77
                    n.clusters.append(None)
                    bump("deep_mutate")
                else:
                    live.append(nsh)
            elif op == "repop" and sh.invariant_holds(K) and sh.labels is not None:
                try:
                    n = cm.repopulate_empty_clusters(src)
                except RuntimeError:
                    n = None
                    bump("repop_raised")
                if n is not None and n is not src:
                    _adopt_phase_output(live, viol, n, K, "repopulation")
                    bump("repop_changed")
                bump("repop")
            elif op == "stats" and sh.invariant_holds(K) and sh.labels is not None and all(len(c.members) > 0 for c in sh.cells):
                n = cm.update_all_cluster_statistics(src, data)
                _adopt_phase_output(live, viol, n, K, "statistics")
                bump("stats")
            elif op in ("optimise", "relabel", "full_round") and sh.invariant_holds(K) and sh.labels is not None \
                    and all(len(c.members) > 1 for c in sh.cells):
                n = cm.update_all_cluster_statistics(src, data)
                _adopt_phase_output(live, viol, n, K, "statistics")
                n2 = gl.optimize_markov_random_fields(n, data, pool)
                _adopt_phase_output(live, viol, n2, K, "optimisation")
                bump("optimise")
                if op != "optimise":
                    n3 = cla.predict_cluster_labels(n2, data)
                    _adopt_phase_output(live, viol, n3, K, "labelling")
                    bump("relabel")
        except Exception as e:  # an operation inside the documented API raised
            viol.append("operation %s raised %s: %s" % (op, type(e).__name__, str(e)[:200]))
        stats["steps"] += 1
        for s_ in live:
            d = compare(s_, K)
            if d:
                viol.append("after step %d (%s): a live state no longer matches its shadow: %s" % (step, op, d[:2]))
                break
        if viol:
            break
        if len(live) > 14:
            del live[1:4]
    stats["trace"] = trace
    if args.min_cluster_size != m or (isinstance(lam, np.ndarray) and not np.all(lam == 0.1)) or \
            (isinstance(beta, np.ndarray) and not np.all(beta == 1.0)):
        viol.append("the original argument bundle was modified through a copy")
    return viol, stats


def _adopt_phase_output(live, viol, n, K, name):
    """A phase returns a state with fresh cells; every pre-existing cell must stay untouched (checked by compare)."""
    known = set(id(c.real) for s in live for c in s.cells)
    fresh = [c for c in n.clusters if id(c) not in known]
    if len(fresh) != len(n.clusters):
        viol.append("%s phase returned a state that shares cluster objects with an existing state" % name)
    nsh = Shadow(n, [Cell(c) for c in n.clusters], n.point_labels)
    if not nsh.invariant_holds(K):
        viol.append("%s phase returned a state whose membership is not the partition given by its labels" % name)
    live.append(nsh)
