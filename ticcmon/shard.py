"""One shard of a check, run in its own interpreter: python -m ticcmon.shard <PROP> <spec.json> <out.json>."""
import importlib
import os
import sys
import traceback
import warnings

from ticcmon import ser


class ShardResult:
    """Accumulator handed to the check's run_shard()."""

    def __init__(self, spec):
        self.spec = spec
        self.evaluations = 0
        self.nontrivial = set()
        self.violations = []
        self.known = []
        self.samples = []
        self.counters = {}
        self.inconclusive = []
        self.not_completed = {}

    def count(self, name, n=1):
        self.counters[name] = self.counters.get(name, 0) + n

    def maxi(self, name, v):
        name = "max_" + name
        self.counters[name] = max(self.counters.get(name, v), v)

    def note(self, name, value):
        lst = self.counters.setdefault(name, [])
        if value not in lst and len(lst) < 200:
            lst.append(value)

    def nontriv(self, key):
        self.nontrivial.add(str(key))

    def violation(self, msg, case, detail=None):
        if len(self.violations) < 25:
            self.violations.append({"msg": msg, "case": case, "mode": self.spec.get("mode", "interp"),
                                    "env": self.spec.get("env"), "detail": detail})
        self.count("violations_total")

    def known_finding(self, key, msg, case=None):
        if len(self.known) < 200:
            self.known.append({"key": key, "msg": msg, "case": case, "mode": self.spec.get("mode", "interp")})
        self.count("known:" + key)

    def sample(self, s):
        if len(self.samples) < 3:
            self.samples.append(s)

    def skipped(self, why):
        self.not_completed[why] = self.not_completed.get(why, 0) + 1

    def to_json(self):
        return dict(evaluations=self.evaluations, nontrivial=sorted(self.nontrivial), violations=self.violations,
                    known=self.known, samples=self.samples, counters=self.counters,
                    inconclusive=self.inconclusive, not_completed=self.not_completed)


def main():
    prop, sf, of = sys.argv[1:4]
    warnings.simplefilter("ignore")
    # if this shard ever stalls, leave the stacks of all its threads in the shard log shortly before the runner's watchdog fires
    try:
        import faulthandler
        limit = int(os.environ.get("TICCMON_SHARD_TIMEOUT", "0"))
        if limit > 40:
            faulthandler.dump_traceback_later(limit - 20, exit=False)
    except Exception:
        pass
    with open(sf) as f:
        spec = ser.loads(f.read())
    mod = importlib.import_module("ticcmon.checks.%s" % prop.lower())
    res = ShardResult(spec)

    def flush():
        tmp_ = of + ".tmp"
        with open(tmp_, "w") as f_:
            f_.write(ser.dumps(res.to_json()))
        os.replace(tmp_, of)
    res.flush = flush
    try:
        if "replay" in spec:
            mod.replay(spec["replay"], res)
        else:
            mod.run_shard(spec, res)
    except BaseException:
        res.inconclusive.append("shard %s raised: %s" % (spec.get("name"), traceback.format_exc()[-1500:]))
    tmp = of + ".tmp"
    with open(tmp, "w") as f:
        f.write(ser.dumps(res.to_json()))
    os.replace(tmp, of)


if __name__ == "__main__":
    main()
