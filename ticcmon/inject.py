"""Picklable task shim executed inside pool workers: delay / raise / die, and ADMM exit records."""
import os
import time


class InjectedFault(Exception):
    """Custom picklable exception class used by the fault plans."""

    def __init__(self, msg="injected"):
        super().__init__(msg)
        self.msg = msg

    def __reduce__(self):
        return (InjectedFault, (self.msg,))


EXC_CLASSES = {
    "ValueError": ValueError,
    "MemoryError": MemoryError,
    "InjectedFault": InjectedFault,
    "ArithmeticError": ArithmeticError,
    "KeyError": KeyError,
    "KeyboardInterrupt": KeyboardInterrupt,      # parent-side phase faults only (a user pressing Ctrl-C during the call)
    "SystemExit": SystemExit,
}


def make_exc(name, msg):
    if msg is None:
        # an exception raised without arguments (bare assert, MemoryError(), KeyError()): args == ()
        return {"AssertionError": AssertionError, "MemoryError": MemoryError, "KeyError": KeyError}[name]()
    if name == "LinAlgError":
        import numpy as np
        return np.linalg.LinAlgError(msg)
    return EXC_CLASSES[name](msg)


def task_shim(spec, func, args, kwds):
    """Runs in the worker.  spec: None or dict(delay=float, raise_=(cls, msg), die=bool)."""
    from ticcmon import instrument
    if spec:
        if spec.get("delay"):
            time.sleep(spec["delay"])
        if spec.get("die"):
            if spec.get("die_file"):
                fd = os.open(spec["die_file"], os.O_WRONLY | os.O_CREAT | os.O_APPEND)
                os.write(fd, ("%d\n" % os.getpid()).encode())
                os.close(fd)
            os._exit(17)
        if spec.get("raise_"):
            raise make_exc(*spec["raise_"])
    instrument.install_admm_monitor()      # no-op in forked workers (inherited); needed in spawned ones
    instrument.ADMM_LAST.clear()
    result = func(*args, **kwds)
    rec = instrument.admm_exit_record()
    rec["pid"] = os.getpid()
    try:
        result._ticcmon = rec
    except Exception:  # result type does not accept attributes: no record
        pass
    return result
