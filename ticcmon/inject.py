"""Picklable task shim executed inside pool workers: delay / raise / die, and ADMM exit records."""
import os
import time


class InjectedFault(Exception):
    """Custom picklable exception class used by the fault plans."""

    def __init__(self, msg="injected"):
        super().__init__(msg)
        self.msg = msg

    def __reduce__(self):
        return (InjectedFault, (self.msg,))


EXC_CLASSES = {
    "ValueError": ValueError,
    "MemoryError": MemoryError,
    "InjectedFault": InjectedFault,
    "ArithmeticError": ArithmeticError,
    "KeyError": KeyError,
    "KeyboardInterrupt": KeyboardInterrupt,      # parent-side phase faults only (a user pressing Ctrl-C during the call)
    "SystemExit": SystemExit,
}


def make_exc(name, msg):
    if msg is None:
        # an exception raised without arguments (bare assert, MemoryError(), KeyError()): args == ()
        return {"AssertionError": AssertionError, "MemoryError": MemoryError, "KeyError": KeyError}[name]()
    if name == "LinAlgError":
        import numpy as np
        return np.linalg.LinAlgError(msg)
    return EXC_CLASSES[name](msg)


class jumping_clocks:
    """Inside the block time.monotonic / time.time / time.perf_counter (and their _ns forms) run `jump` seconds ahead from their
    second call on."""
    NAMES = ("monotonic", "time", "perf_counter", "process_time")

    def __init__(self, jump):
        self.jump = jump
        self.saved = {}

    def __enter__(self):
        calls = {"n": 0}
        for name in self.NAMES:
            orig = getattr(time, name)
            self.saved[name] = orig

            def clock(orig=orig):
                calls["n"] += 1
                return orig() + (self.jump if calls["n"] > 1 else 0.0)
            setattr(time, name, clock)
            orig_ns = getattr(time, name + "_ns")
            self.saved[name + "_ns"] = orig_ns

            def clock_ns(orig_ns=orig_ns):
                calls["n"] += 1
                return orig_ns() + (int(self.jump * 1e9) if calls["n"] > 1 else 0)
            setattr(time, name + "_ns", clock_ns)
        return self

    def __exit__(self, *a):
        for name, f in self.saved.items():
            setattr(time, name, f)
        return False


def task_shim(spec, func, args, kwds):
    """Runs in the worker.  spec: None or dict(delay=float, raise_=(cls, msg), die=bool)."""
    from ticcmon import instrument
    if spec:
        if spec.get("delay"):
            time.sleep(spec["delay"])
        if spec.get("die"):
            if spec.get("die_file"):
                fd = os.open(spec["die_file"], os.O_WRONLY | os.O_CREAT | os.O_APPEND)
                os.write(fd, ("%d\n" % os.getpid()).encode())
                os.close(fd)
            os._exit(17)
        if spec.get("raise_"):
            raise make_exc(*spec["raise_"])
    instrument.install_admm_monitor()      # no-op in forked workers (inherited); needed in spawned ones
    entry = instrument.install_entry_monitor()
    if func is getattr(entry, "_orig", None):
        func = entry                       # first task of a worker: the unpickled reference still is the unwrapped entry point
    instrument.ADMM_LAST.clear()
    del instrument.ENTRY_LAST[:]
    if spec and spec.get("clock_jump"):
        # the machine's clocks jump ahead while the task runs (process suspended, laptop lid closed, a very slow node)
        with jumping_clocks(float(spec["clock_jump"])):
            result = func(*args, **kwds)
    else:
        result = func(*args, **kwds)
    rec = instrument.admm_exit_record()
    rec["pid"] = os.getpid()
    rec["received"] = list(instrument.ENTRY_LAST)
    rec["blas_threads"] = os.environ.get("OPENBLAS_NUM_THREADS")
    try:
        result._ticcmon = rec
    except Exception:  # result type does not accept attributes: no record
        pass
    return result
