"""C06 - result fields are mutually consistent (cost and likelihood accounting)."""
from ticcmon import e2e_check
from ticcmon.checks import e2e_common as ec

LEVEL = "exploration"
RULE = ("traced runs of both front ends engineered to end with empty clusters (K above the number of regimes, large beta, limit 1..3) plus "
        "general runs with scalar and per-pair beta; non-trivial = completed run whose returned labelling has >=1 switch or >=1 empty cluster; "
        "distinct by case hash")
ASSUMPTIONS = ["per-point densities recomputed by the oracle under the final model captured at the metrics call",
               "joint runs: cost excess explained exactly by priced series boundaries is the recorded finding joint-boundary-priced"]
SHARD_TIMEOUT = {"quick": 300, "thorough": 3400}
MIX = {"single:empty_final": 4, "single:small": 2, "single:general": 2, "joint:joint": 2, "joint:empty_final": 1}
PROPS = ("C06",)


def plan(tier, seed):
    specs = ec.plan_e2e(seed, 6, MIX, 180 if tier == "quick" else 1800, nwcap=12 if tier == "quick" else 24)
    if tier == "thorough":
        specs += ec.fixture_specs()
    return specs


def nontrivial(run, I):
    return "e" if (I.counts.get("empty_final_clusters", 0) or I.counts.get("cost_equation_held", 0)) else None


def run_shard(spec, res):
    ec.run_e2e_shard(spec, res, PROPS, nontrivial)


def replay(case, res):
    e2e_check.replay_case(res, case, PROPS)


def finalize(merged, tier):
    out = {"inconclusive": []}
    q = tier == "quick"
    ec.min_counter(merged, out, "runs_with_empty_final_cluster", 15 if q else 150)
    ec.min_counter(merged, out, "cost_equation_held", 60 if q else 600)
    ec.min_counter(merged, out, "result_ll_entries_checked", 3000 if q else 30000)
    ec.unexpected(merged, out)
    return out
