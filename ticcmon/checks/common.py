"""Helpers shared by the check modules."""
import hashlib
import os

import numpy as np


def repo_root():
    return os.environ.get("FAST_TICC_REPO", "/repo")


def h(*parts):
    m = hashlib.sha256()
    for p in parts:
        if isinstance(p, np.ndarray):
            m.update(np.ascontiguousarray(p).tobytes())
            m.update(str(p.shape).encode())
        else:
            m.update(repr(p).encode())
    return m.hexdigest()[:16]


def numba_state():
    """How the kernels are actually executing in this interpreter."""
    from fast_ticc import numba_guard
    out = {"NUMBA_AVAILABLE": bool(numba_guard.NUMBA_AVAILABLE)}
    if numba_guard.NUMBA_AVAILABLE:
        import numba
        out["DISABLE_JIT"] = bool(numba.config.DISABLE_JIT)
        out["BOUNDSCHECK"] = bool(numba.config.BOUNDSCHECK)
    return out


def dispatcher_compiled(func):
    sigs = getattr(func, "signatures", None)
    return bool(sigs)


def split_counts(total, parts):
    base = total // parts
    out = [base] * parts
    for i in range(total - base * parts):
        out[i] += 1
    return out


def under_O(spec, **over):
    """A copy of a shard spec that runs in an interpreter started with -O (assert statements compiled away)."""
    sp = dict(spec)
    sp.update(over)
    sp["name"] = spec["name"] + "-O"
    sp["env"] = dict(spec.get("env") or {}, PYTHONOPTIMIZE="1")
    return sp
