"""C19 - caller-owned data is never modified; read-only arrays work."""
import numpy as np

from ticcmon import e2e, instrument
from ticcmon.checks import common
from ticcmon.oracles import digest as dg
from ticcmon.workloads import cases as wc
from ticcmon.workloads import data as wd

LEVEL = "exploration"
RULE = ("byte snapshots of every argument before/after calls of ticc_labels, ticc_joint_labels, admm_optimize_theta and the labelling kernel, "
        "returning or raising (injected task fault, wrong lambda shape, series shorter than W, swapped front ends), with eps>0, rho-update "
        "callbacks, C/F/float32/int data; every call is repeated with all array arguments read-only and must give the same outcome; "
        "non-trivial = a call with >=1 array-valued hyper-parameter or a failing call; distinct by case hash")
ASSUMPTIONS = ["a write into a read-only array raises at the faulting line (NumPy's own watch-point)"]
SHARD_TIMEOUT = {"quick": 300, "thorough": 3400}


def plan(tier, seed):
    q = tier == "quick"
    specs = []
    for p, n in enumerate(common.split_counts(60 if q else 700, 12 if q else 24)):
        specs.append(dict(name="front-%d" % p, mode="interp", what="front", n=n, seed=[seed, 19, p]))
    for p, n in enumerate(common.split_counts(400 if q else 5000, 3 if q else 8)):
        specs.append(dict(name="direct-%d" % p, mode="interp", what="direct", n=n, seed=[seed, 199, p]))
    specs.append(dict(name="direct-jit", mode="jit", what="direct", n=60 if q else 600, seed=[seed, 198, 0], jit=True))
    for p in range(1 if q else 4):
        specs.append(dict(name="front-jit-%d" % p, mode="jit", what="front", n=6 if q else 20, seed=[seed, 197, p]))
    # the same work in an interpreter started with -O (assert statements compiled away)
    byname = {sp["name"]: sp for sp in specs}
    if 'front-0' in byname:
        specs.append(common.under_O(byname['front-0'], **{}))
    if 'direct-0' in byname:
        specs.append(common.under_O(byname['direct-0'], **{}))
    return specs


def snap(x):
    """Byte-wise snapshot of an argument (arrays, lists of arrays, scalars)."""
    if isinstance(x, np.ndarray):
        return ("nd", x.shape, str(x.dtype), x.strides if x.flags.c_contiguous or x.flags.f_contiguous else None,
                np.ascontiguousarray(x).tobytes(), bool(x.flags.writeable))
    if isinstance(x, (list, tuple)):
        return ("seq", type(x).__name__, tuple(snap(v) for v in x))
    return ("val", repr(x))


def readonly(x):
    if isinstance(x, np.ndarray):
        y = np.array(x, copy=True, order="K")
        y.flags.writeable = False
        return y
    if isinstance(x, list):
        return [readonly(v) for v in x]
    return x


def front_call(case, ro):
    """Run one front-end call; returns (outcome string, list of changed argument names)."""
    import fast_ticc
    instrument.install_all()
    instrument.reset_run()
    import random
    data = wd.make_data(case["data"])
    series = data if isinstance(data, list) else [data]
    W = case["W"]
    N = int(np.asarray(series[0]).shape[1])
    if case.get("oned"):
        N = 1
    npts = sum(max(0, np.asarray(s).shape[0] - W + 1) for s in series)
    beta = wd.make_beta(case["beta"], npts)
    lam = wd.make_lambda(case["lam"], N * W) if not case.get("bad_lambda_shape") else np.full((N * W + 1, N * W + 1), 0.1)
    if case.get("nan_sample"):
        # a missing sample: whatever the library does about it, it must not write into the caller's series
        tgt = data[-1] if isinstance(data, list) else data
        if tgt.dtype.kind == "f":
            if not tgt.flags.writeable:
                tgt = np.array(tgt)
            else:
                tgt = tgt.copy() if not tgt.flags.owndata else tgt
            tgt[min(2, tgt.shape[0] - 1), 0] = np.nan
            if isinstance(data, list):
                data[-1] = tgt
            else:
                data = tgt
    if case.get("negative_lambda_entry") and isinstance(lam, np.ndarray) and lam.flags.writeable:
        lam[0, -1] = lam[-1, 0] = -0.05
    if case.get("oned") and isinstance(data, np.ndarray):
        data = np.array(data[:, 0], copy=True)          # a univariate series given as a 1-D array
    if ro:
        data, beta, lam = readonly(data), readonly(beta), readonly(lam)
    args = {"data": data, "beta": beta, "lam": lam}
    before = {k: snap(v) for k, v in args.items()}
    for k, v in (case.get("task_plan") or {}).items():
        instrument.PLAN["task"][int(k)] = v
    np.random.seed(case["rng_seed"])
    random.seed(case["rng_seed"])
    kw = dict(window_size=W, num_clusters=case["K"], sparsity_weight=lam, label_switching_cost=beta, iteration_limit=case["limit"],
              min_meaningful_covariance=case["eps"], num_processors=1, min_cluster_size=case["m"], biased_covariance=case["biased"])
    front = case["front"]
    if case.get("swap"):
        front = "joint" if front == "single" else "single"
    try:
        with instrument.quiet():
            if front == "joint":
                r = fast_ticc.ticc_joint_labels(data, **kw)
            else:
                r = fast_ticc.ticc_labels(data, **kw)
        outcome = "OK:" + dg.digest(r)[:16]
    except Exception as e:
        outcome = "EXC:%s" % type(e).__name__
    changed = [k for k, v in args.items() if snap(v) != before[k]]
    if not ro:
        for k, v in args.items():
            if isinstance(v, (np.ndarray, list)) and k not in changed:
                HELD.append((k, v, before[k], case.get("fail")))
        del HELD[:-12]
    return outcome, changed


HELD = []   # caller-owned arguments of earlier calls, kept alive: a later call must not touch them either


def verify_held(res, case, label):
    for k, v, s0, _ in HELD:
        if snap(v) != s0:
            res.violation("%s: the %s argument of an EARLIER call was modified by a later call (stale reference kept by the library)" % (label, k), case)
            del HELD[:]
            return
    res.count("held_arguments_rechecked", len(HELD))


def run_front(spec, res):
    rng = np.random.default_rng(spec["seed"])
    wc.NW_CAP[0] = 8
    for i in range(spec["n"]):
        joint = rng.random() < 0.35
        case = wc.gen_joint(rng, "joint") if joint else wc.gen_single(rng, "general")
        case["limit"] = int(rng.choice([1, 2, 3]))
        fl = ["plain", "fortran", "float32", "int", "strided"][int(rng.integers(0, 5))]
        case["data"]["flavor"] = fl
        if rng.random() < 0.6:
            case["lam"] = dict(form=["matrix_const", "matrix_rand", "matrix_const_be"][int(rng.integers(0, 3))], value=0.3, seed=int(rng.integers(0, 999)))
        if rng.random() < 0.6:
            case["beta"] = dict(form=["vector_const", "vector_rand"][int(rng.integers(0, 2))], value=5.0, seed=int(rng.integers(0, 999)))
        fail = [None, None, "task", "bad_lambda_shape", "short", "swap", "oned", "nan_sample", "negative_lambda_entry"][int(rng.integers(0, 9))]
        if fail == "task":
            case["task_plan"] = {str(int(rng.integers(0, case["K"]))): {"raise_": ("ValueError", "injected")}}
        elif fail == "bad_lambda_shape":
            case["bad_lambda_shape"] = True
        elif fail == "short":
            if joint:
                case["data"]["T"][0] = max(1, case["W"] - 1)
            else:
                case["data"]["T"] = max(1, case["W"] - 1)
        elif fail == "swap":
            case["swap"] = True
        elif fail == "oned" and not joint:
            case["oned"] = True
        elif fail == "nan_sample":
            case["nan_sample"] = True
        elif fail == "negative_lambda_entry":
            case["lam"] = dict(form="matrix_rand", value=0.3, seed=int(rng.integers(0, 999)))
            case["negative_lambda_entry"] = True
        case["what"] = "front"
        case["fail"] = fail
        check_front(res, case)
        if i == 0:
            res.sample(case)


def check_front(res, case):
    o1, ch1 = front_call(case, ro=False)
    res.evaluations += 1
    followup = case["beta"]["form"].startswith("vector") or case["lam"]["form"].startswith("matrix")
    f1 = None
    if followup:
        f1 = scalar_followup(res, case, "front end (scalar-parameter call after a call with array parameters)")
    o2, ch2 = front_call(case, ro=True)
    res.evaluations += 1
    res.count("outcome:" + o1.split(":")[0] + (":" + o1.split(":")[1] if o1.startswith("EXC") else ""))
    res.count("fail_mode:%s" % case.get("fail"))
    if ch1:
        res.violation("front end modified caller-owned %s (call outcome %s, data flavour %s)" % (ch1, o1[:30], case["data"]["flavor"]), case)
    if ch2:
        res.violation("front end modified read-only %s" % ch2, case)
    if o1 != o2:
        res.violation("the same call gives %s with writable arrays but %s with read-only arrays" % (o1[:40], o2[:40]), case)
    if followup:
        # the same scalar-parameter call again, now after the read-only variant: it must behave as it did before
        f2 = scalar_followup(res, case, "front end (scalar-parameter call after a call with read-only array parameters)")
        if f1 is not None and f2 is not None and f1 != f2:
            res.violation("a scalar-parameter call gives %s after a call with writable array parameters but %s after the same call with "
                          "read-only arrays (state kept from the earlier call)" % (f1[:40], f2[:40]), case)
    arrays = case["lam"]["form"].startswith("matrix") or case["beta"]["form"].startswith("vector")
    if arrays or o1.startswith("EXC"):
        res.nontriv(common.h(case))
    if o1.startswith("EXC"):
        res.count("failing_calls")
    else:
        res.count("returning_calls")
    verify_held(res, case, "front end")


def scalar_followup(res, case, label):
    """Same data and shapes again with scalar beta and lambda; nothing handed over earlier may change."""
    c2 = dict(case)
    c2["beta"] = dict(form="float", value=3.0)
    c2["lam"] = dict(form="float", value=0.2)
    c2["task_plan"] = {}
    c2.pop("bad_lambda_shape", None)
    held = list(HELD)
    out, _ = front_call(c2, ro=False)
    del HELD[:]
    HELD.extend(held)            # the follow-up's own (scalar) arguments need no watching
    res.evaluations += 1
    res.count("scalar_followup_calls")
    verify_held(res, case, label)
    return out


def cb_halve(rho, rp, tp, rd, td):
    return rho / 2 if rd > 10 * rp else (rho * 2 if rp > 10 * rd else rho)


def check_direct(res, case):
    from fast_ticc import admm
    from fast_ticc import cluster_label_assignment as cla
    rng = np.random.default_rng(case["rng"])
    if case["target"] == "admm":
        N, W = case["N"], case["W"]
        n = N * W
        S = wd.make_covariance(dict(seed=int(rng.integers(0, 2 ** 31)), n=n, kind=case["cov"], N=N, W=W, pts=n + 2))
        if case["order"] == "F":
            S = np.asfortranarray(S)
        lam = wd.make_lambda(case["lam"], n) if not case.get("bad") else np.full((n + 2, n + 2), 0.2)
        outs = []
        for ro in (False, True):
            a = dict(S=readonly(S) if ro else np.array(S, copy=True, order="K"), lam=readonly(lam) if ro else (np.array(lam, copy=True) if isinstance(lam, np.ndarray) else lam))
            before = {k: snap(v) for k, v in a.items()}
            try:
                r = admm.admm_optimize_theta(a["S"], a["lam"], W, N, rho=case["rho"], rho_update=cb_halve if case["cb"] else None, max_iterations=40)
                outs.append("OK:" + common.h(np.asarray(r.theta)))
            except Exception as e:
                outs.append("EXC:" + type(e).__name__)
            res.evaluations += 1
            ch = [k for k, v in a.items() if snap(v) != before[k]]
            if ch:
                res.violation("optimiser entry point modified caller-owned %s (%s, read-only=%s)" % (ch, outs[-1][:20], ro), case)
        if outs[0] != outs[1]:
            res.violation("optimiser entry point: %s with writable arrays, %s with read-only arrays" % (outs[0][:30], outs[1][:30]), case)
        res.count("admm_calls", 2)
        if outs[0].startswith("EXC"):
            res.count("failing_calls")
        res.nontriv(common.h(case))
    else:
        T, K = case["T"], case["K"]
        C = rng.normal(size=(T, K)) * 5
        if case["order"] == "F":
            C = np.asfortranarray(C)
        beta = rng.uniform(0, 3, size=T) if case["vec"] else float(rng.uniform(0, 3))
        outs = []
        for ro in (False, True):
            a = dict(table=readonly(C) if ro else np.array(C, copy=True, order="K"),
                     beta=(readonly(beta) if ro else np.array(beta, copy=True)) if isinstance(beta, np.ndarray) else beta)
            before = {k: snap(v) for k, v in a.items()}
            try:
                labels, cost = cla.assign_point_cluster_labels(label_assignment_cost=a["table"], label_switching_cost=a["beta"])
                outs.append("OK:" + common.h([int(v) for v in labels], float(cost)))
            except Exception as e:
                outs.append("EXC:%s:%s" % (type(e).__name__, str(e)[:60]))
            res.evaluations += 1
            ch = [k for k, v in a.items() if snap(v) != before[k]]
            if ch:
                res.violation("labelling step modified caller-owned %s" % ch, case)
        if outs[0] != outs[1]:
            res.violation("labelling step: %s with writable arrays, %s with read-only arrays" % (outs[0][:40], outs[1][:40]), case)
        if outs[0].startswith("EXC"):
            res.violation("labelling step raised on a valid table: %s" % outs[0], case)
        res.count("label_calls", 2)
        if case["vec"]:
            res.nontriv(common.h(case))


def run_direct(spec, res):
    rng = np.random.default_rng(spec["seed"])
    for i in range(spec["n"]):
        if rng.random() < 0.35 and not spec.get("jit"):
            while True:
                N, W = int(rng.integers(1, 4)), int(rng.integers(1, 5))
                if N * W <= 9:
                    break
            case = dict(what="direct", target="admm", rng=[int(v) for v in spec["seed"]] + [i], N=N, W=W,
                        cov=["full", "rankdef", "diag"][int(rng.integers(0, 3))], order=["C", "F"][int(rng.integers(0, 2))],
                        lam=dict(form=["float", "matrix_const", "matrix_rand"][int(rng.integers(0, 3))], value=0.3, seed=i),
                        rho=float(rng.choice([0.5, 1, 1, 3])), cb=bool(rng.integers(0, 2)), bad=bool(rng.random() < 0.1))
        else:
            case = dict(what="direct", target="label", rng=[int(v) for v in spec["seed"]] + [i], T=int(rng.integers(1, 40)),
                        K=int(rng.integers(1, 6)), order=["C", "F"][int(rng.integers(0, 2))] if not spec.get("jit") else "C",
                        vec=bool(rng.integers(0, 2)))
        check_direct(res, case)
        if i == 0:
            res.sample(case)


def run_shard(spec, res):
    res.counters["numba_state"] = str(common.numba_state())
    if spec["what"] == "front":
        run_front(spec, res)
    else:
        run_direct(spec, res)


def replay(case, res):
    if case["what"] == "front":
        check_front(res, case)
    else:
        check_direct(res, case)


def finalize(merged, tier):
    out = {"inconclusive": []}
    q = tier == "quick"
    c = merged["counters"]
    for key, least in (("scalar_followup_calls", 8 if q else 80), ("held_arguments_rechecked", 100 if q else 1000), ("returning_calls", 20 if q else 200), ("failing_calls", 15 if q else 150), ("admm_calls", 100 if q else 1000),
                       ("label_calls", 300 if q else 3000)):
        if c.get(key, 0) < least:
            out["inconclusive"].append("monitor counter %s=%d below %d" % (key, c.get(key, 0), least))
    return out
