"""C07 - jointly labelled series are independent across series boundaries."""
import itertools

import numpy as np

from ticcmon import e2e, e2e_check
from ticcmon.checks import common, e2e_common as ec
from ticcmon.oracles import digest as dg
from ticcmon.workloads import cases as wc

LEVEL = "exploration"
RULE = ("(a) mask helper over tuples of 1..6 stacked lengths in 1..9 (quick: all tuples of <=4 lengths + 6000 sampled longer ones; thorough: all "
        "597870); (b,c) traced joint runs with 2..6 unequal series: stacked rows vs per-series stacking, the (table, beta) pair seen at each "
        "labelling step, reported cost; (d) joint([d]) vs single(d) digests from equal generator states; non-trivial = joint run with >=2 series "
        "and beta>0 on a boundary, or a helper tuple with >=2 lengths; distinct by case hash")
ASSUMPTIONS = ["beta_seen is observed by wrapping the labelling kernel attribute from the harness",
               "beta_seen == caller's unmasked beta is the recorded finding joint-boundary-priced; any other pricing is a violation"]
SHARD_TIMEOUT = {"quick": 300, "thorough": 3400}
MIX = {"joint:joint": 5, "joint:converge": 1, "joint:empty_final": 1}
PROPS = ("C07",)


def plan(tier, seed):
    q = tier == "quick"
    specs = ec.plan_e2e(seed, 7, MIX, 110 if q else 1100, nwcap=12 if q else 24)
    if not q:
        specs += ec.fixture_specs()
    for p in range(2):
        specs.append(dict(name="helper-%d" % p, mode="interp", what="helper", part=p, parts=2, full=not q, seed=[seed, 77, p]))
    specs.append(dict(name="nan", mode="interp", what="nan", n=6 if q else 30, seed=[seed, 77777, 0]))
    for p in range(2 if q else 6):
        specs.append(dict(name="sweep-%d" % p, mode="interp", what="sweep", n=3 if q else 8, seed=[seed, 7777, p]))
    for p in range(4 if q else 8):
        specs.append(dict(name="pairs-%d" % p, mode="interp", what="pairs", n=4 if q else 15, seed=[seed, 777, p]))
    return specs


def nontrivial(run, I):
    _helper_after_run(run)
    return "j" if (I.counts.get("joint_masked_runs", 0) or I.counts.get("joint_runs_cost_inflated_by_boundary", 0)
                   or any(k == "joint-boundary-priced" for _, k, _ in I.known)) else None


_PENDING = []


def _helper_after_run(run):
    """After a joint run the mask helper is asked again for exactly the stacked lengths the front end used."""
    if run.joint and run.lens:
        _PENDING.append(tuple(run.lens))


def check_template(res, dp, lens):
    case = dict(what="helper", lens=list(lens))
    try:
        t = dp.label_switching_cost_template(list(lens))
    except Exception as e:
        res.violation("label_switching_cost_template(%s) raised %s: %s" % (list(lens), type(e).__name__, e), case)
        return
    res.evaluations += 1
    total = sum(lens)
    exp = np.ones(total)
    e = 0
    for L in lens[:-1]:
        e += L
        exp[e - 1] = 0.0
    t = np.asarray(t)
    if t.shape != (total,) or not np.array_equal(t.astype(np.float64), exp):
        zeros = [int(i) for i in np.nonzero(t == 0)[0]] if t.ndim == 1 else None
        res.violation("mask for stacked lengths %s has zeros at %s, the boundary pairs are %s" % (
            list(lens), zeros, [int(i) for i in np.nonzero(exp == 0)[0]]), case)
    # history: the caller owns the returned mask and may scale it in place (the docstrings suggest exactly that);
    # a later request for the same lengths must still be the pristine mask
    if t.ndim == 1 and t.flags.writeable:
        try:
            t *= 7.5
        except Exception:
            pass
        t2 = np.asarray(dp.label_switching_cost_template(list(lens)))
        res.count("helper_repeat_calls")
        if t2.shape != (total,) or not np.array_equal(t2.astype(np.float64), exp):
            res.violation("second request for the mask of stacked lengths %s (after the caller scaled the first one in place) returns %s..." % (
                list(lens), t2[:8].tolist()), case)
    if len(lens) >= 2:
        res.nontriv("t" + ",".join(map(str, lens)))


def run_helper(spec, res):
    from fast_ticc import data_preparation as dp
    idx = 0
    maxlen = 6 if spec["full"] else 4
    for n in range(1, maxlen + 1):
        for lens in itertools.product(range(1, 10), repeat=n):
            idx += 1
            if idx % spec["parts"] != spec["part"]:
                continue
            check_template(res, dp, lens)
    res.counters["helper_tuples_enumerated"] = idx
    if not spec["full"]:
        rng = np.random.default_rng(spec["seed"])
        for _ in range(3000):
            n = int(rng.integers(5, 7))
            check_template(res, dp, tuple(int(v) for v in rng.integers(1, 10, size=n)))
        for _ in range(300):
            n = int(rng.integers(2, 7))
            check_template(res, dp, tuple(int(v) for v in rng.integers(1, 400, size=n)))
    res.sample(dict(what="helper", example_lengths=[3, 2, 4], expected_zero_indices=[2, 4]))
    run_composition(spec, res)


def check_composition(res, case):
    """Component level: labelling kernel driven with beta * mask(lengths).  Independence across boundaries means the joint
    optimum equals the sum of the per-series optima and the returned sequence is optimal within every series."""
    from fast_ticc import data_preparation as dp
    from fast_ticc import cluster_label_assignment as cla
    from ticcmon.oracles import labelling as lab
    rng = np.random.default_rng(case["rng"])
    lens = case["lens"]
    K = case["K"]
    T = sum(lens)
    exact = case["exact"]
    C = rng.integers(0, 5, size=(T, K)).astype(np.float64) if exact else rng.normal(size=(T, K)) * 4
    beta = float(case["beta"])
    vec = beta * np.asarray(dp.label_switching_cost_template(list(lens)), dtype=np.float64)
    try:
        labels, cost = cla.assign_point_cluster_labels(label_assignment_cost=C.copy(), label_switching_cost=vec.copy())
    except Exception as e:
        res.violation("labelling step raised %s on a masked switching cost (lengths %s)" % (type(e).__name__, lens), case)
        return
    res.evaluations += 1
    labels = [int(v) for v in labels]
    tol = 0.0 if exact else lab.cost_tolerance(C, vec)
    total_opt = 0.0
    start = 0
    for L in lens:
        sub = C[start:start + L]
        opt, _ = lab.forward_viterbi(sub, beta)
        got = lab.path_cost(sub, beta, labels[start:start + L])
        if got > opt + tol:
            res.violation("series at rows [%d,%d) of a joint labelling (lengths %s, beta=%g) is labelled at cost %r, alone its optimum is %r" % (
                start, start + L, lens, beta, got, opt), case)
            return
        total_opt += opt
        start += L
    if abs(float(cost) - total_opt) > tol * len(lens) + 1e-12 * abs(total_opt):
        res.violation("joint cost %r != sum of the per-series optima %r (lengths %s, beta=%g)" % (float(cost), total_opt, lens, beta), case)
    res.count("compositions_checked")
    if len(lens) >= 2:
        res.nontriv(common.h(case))


def run_composition(spec, res):
    rng = np.random.default_rng(spec["seed"] + [5])
    for i in range(400 if not spec["full"] else 3000):
        ns = int(rng.integers(1, 7))
        lens = [int(v) for v in rng.integers(1, 12, size=ns)]
        if rng.random() < 0.3:
            lens[0] = 1                      # first series contributes exactly one stacked window: beta[0] is a boundary pair
        if rng.random() < 0.2:
            lens[-1] = 1
        case = dict(what="composition", rng=[int(v) for v in spec["seed"]] + [6, i], lens=lens, K=int(rng.integers(2, 5)),
                    beta=float(rng.choice([0.5, 1, 3, 10])), exact=bool(i % 2))
        check_composition(res, case)


def run_pairs(spec, res):
    """(d): joint labelling of a single series equals the single-series front end."""
    rng = np.random.default_rng(spec["seed"])
    for i in range(spec["n"]):
        case = wc.gen_single(rng, "small" if i % 2 else "plain")
        case["data"]["T"] = min(case["data"]["T"], 90)
        case["W"] = [1, 2, 3, 4, 5, 6, 8, 4][(i + int(spec["seed"][2]) * spec["n"]) % 8]     # every parity class of W, incl. multiples of 4
        if case["data"]["N"] * case["W"] > 12:
            case["data"]["N"] = 1
        case["data"]["T"] = max(case["data"]["T"], 3 * case["K"] + case["W"] + 4)
        if case["beta"]["form"].startswith("vector"):
            case["beta"] = dict(form="float", value=float(case["beta"]["value"]))
        jcase = dict(case)
        jcase["front"] = "joint"
        jcase["data"] = dict(case["data"])
        jcase["data"]["T"] = [case["data"]["T"]]
        jcase["data"]["seed"] = case["data"]["seed"]
        jcase["pair_of"] = "single"
        check_pair(res, case, jcase)


def check_pair(res, case, jcase):
    from ticcmon.workloads import data as wd
    a = e2e.run_case(case)
    # joint data: make_data would derive another seed for series 0; force identical rows
    d = wd.make_series(case["data"])
    orig = wd.make_data

    def same(desc):
        return [d] if isinstance(desc["T"], (list, tuple)) else orig(desc)
    wd.make_data = same
    try:
        b = e2e.run_case(jcase)
    finally:
        wd.make_data = orig
    if (a.exc is None) != (b.exc is None):
        res.violation("single-series front end %s but joint front end on the same single series %s" % (
            "completed" if a.exc is None else "raised " + a.exc_tag, "completed" if b.exc is None else "raised " + b.exc_tag),
            dict(what="pair", single=case, joint=jcase))
        return
    if a.exc is not None:
        res.skipped("pair:" + a.exc_tag.split(":")[0])
        return
    res.evaluations += 1
    fa = dg.result_fields(a.result)
    fb = dg.result_fields(b.result)
    diff = [k for k in fa if fa[k] != fb[k]]
    if len(b.result.point_labels) != 1:
        diff.append("point_labels(outer length)")
    if diff:
        res.violation("joint labelling of one series differs from the single-series result in %s" % diff[:5],
                      dict(what="pair", single=case, joint=jcase))
    res.count("pairs_compared")
    res.nontriv(common.h(case))


def run_sweep(spec, res):
    """History: a caller sweeps per-pair switching costs through ONE array object, refilled in place between joint calls whose
    series have the same total stacked length but different boundaries.  What reaches the labelling step must be this call's
    vector (masked or, by the recorded finding, unmasked) - never an earlier call's."""
    rng = np.random.default_rng(spec["seed"])
    wc.NW_CAP[0] = 6
    for i in range(spec["n"]):
        base = wc.gen_joint(rng, "joint_vector")
        W = base["W"]
        total = int(rng.integers(50, 90))
        cases = []
        for j in range(3):
            cut = int(rng.integers(8, total - 8))
            c = dict(base)
            c["data"] = dict(base["data"])
            c["data"]["T"] = [cut + W - 1, total - cut + W - 1]          # same total stacked length, another boundary
            c["data"]["seed"] = int(base["data"]["seed"]) + j
            c["beta"] = dict(form="vector_rand", value=float(rng.choice([1.0, 5.0, 50.0])), seed=int(rng.integers(0, 10 ** 6)))
            c["beta_buffer"] = "sweep-%s-%d" % (spec["name"], i)
            c["limit"] = 2
            c["eps"] = 0.0
            cases.append(c)
        e2e_check.run_cases(res, cases, PROPS, nontrivial, coverage_props=())
        res.count("buffer_reuse_sequences")


def run_nan(spec, res):
    """Joint runs in which a later series has a missing sample in its first window.  The library refuses such data (the mixture
    model raises); should it ever accept them, the array it clusters must still be the per-series stacking of the input."""
    rng = np.random.default_rng(spec["seed"])
    wc.NW_CAP[0] = 6
    cases = []
    for i in range(spec["n"]):
        c = wc.gen_joint(rng, "joint")
        c["data"]["flavor"] = "plain"
        c["data"]["nan_gap"] = True
        c["limit"] = 2
        c["eps"] = 0.0
        cases.append(c)
    e2e_check.run_cases(res, cases, PROPS, lambda run, I: None, coverage_props=())
    res.count("joint_runs_with_a_missing_sample", len(cases))


def run_shard(spec, res):
    if spec["what"] == "nan":
        run_nan(spec, res)
        return
    if spec["what"] == "sweep":
        run_sweep(spec, res)
        return
    if spec["what"] in ("e2e", "fixture"):
        ec.run_e2e_shard(spec, res, PROPS, nontrivial)
        from fast_ticc import data_preparation as dp
        for lens in _PENDING:
            check_template(res, dp, lens)
            res.count("helper_calls_after_joint_runs")
        del _PENDING[:]
    elif spec["what"] == "helper":
        run_helper(spec, res)
    else:
        run_pairs(spec, res)


def replay(case, res):
    if case.get("what") == "helper":
        from fast_ticc import data_preparation as dp
        check_template(res, dp, tuple(case["lens"]))
    elif case.get("what") == "composition":
        check_composition(res, case)
    elif case.get("what") == "pair":
        check_pair(res, case["single"], case["joint"])
    else:
        e2e_check.replay_case(res, case, PROPS)


def finalize(merged, tier):
    out = {"inconclusive": []}
    q = tier == "quick"
    c = merged["counters"]
    seen = c.get("joint_masked_runs", 0) + c.get("known:joint-boundary-priced", 0)
    if seen < (40 if q else 400):
        out["inconclusive"].append("only %d joint runs with a priced boundary were decided" % seen)
    ec.min_counter(merged, out, "pairs_compared", 8 if q else 60)
    ec.min_counter(merged, out, "compositions_checked", 500 if q else 4000)
    ec.min_counter(merged, out, "buffer_reuse_sequences", 5 if q else 40)
    ec.min_counter(merged, out, "stacked_arrays_checked", 60 if q else 600)
    ec.unexpected(merged, out)
    out["helper_exhaustive"] = (not q)
    return out
