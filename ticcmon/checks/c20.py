"""C20 - failures surface as exceptions, never as a partial result, a hang or a leftover worker."""
import gc
import os
import sys
import threading
import time
import traceback
import warnings

import numpy as np

from ticcmon import e2e, instrument
from ticcmon.checks import common
from ticcmon.oracles import digest as dg
from ticcmon.workloads import cases as wc

LEVEL = "fault_enumeration"
RULE = ("for each driven run (R rounds, K clusters, learnt from a clean run in the same interpreter): every task index in [0,R*K) raises in "
        "turn (exception classes rotate over ValueError, LinAlgError, MemoryError, a custom picklable class) in a single-process and a "
        "3-process pool; every phase (repop, stats, opt, label) raises in every round in turn; donor shortage; swapped front-end inputs "
        "(list / tuple / generator / 2-D array); each followed by a clean call whose digest must equal the reference; non-trivial = distinct "
        "(fault kind, round, cluster or phase, pool mode) that was actually reached (the injected fault fired)")
ASSUMPTIONS = ["children observed through /proc/<pid>/task/*/children while the harness still holds the exception object",
               "a wall-clock watchdog alone never decides a hang: the main thread's stack and the fate of the awaited task are recorded"]
SHARD_TIMEOUT = {"quick": 300, "thorough": 1800}
EXC_ROT = ["ValueError", "LinAlgError", "MemoryError", "InjectedFault"]


def plan(tier, seed):
    q = tier == "quick"
    specs = []
    n_inputs = 2 if q else 5
    for i in range(n_inputs):
        for mp in (False, True):
            specs.append(dict(name="tasks-%d-%s" % (i, "mp" if mp else "sp"), mode="interp", what="tasks", input=i, mp=mp, seed=seed,
                              classes=1 if q else 4))
        specs.append(dict(name="phases-%d" % i, mode="interp", what="phases", input=i, seed=seed))
    specs.append(dict(name="frontends", mode="interp", what="frontends", seed=seed))
    specs.append(dict(name="initfaults", mode="interp", what="initfaults", seed=seed, n=6 if q else 30))
    specs.append(dict(name="natural", mode="interp", what="natural", seed=seed, n=6 if q else 16))
    for p in range(2 if q else 6):
        specs.append(dict(name="shortage-%d" % p, mode="interp", what="shortage", part=p, parts=2 if q else 6, Kmax=4 if q else 5))
    for p in range(2 if q else 6):
        specs.append(dict(name="nodonor-%d" % p, mode="interp", what="nodonor", seed=seed, part=p, n=4))
    # the same failure scenarios in an interpreter started with -O (assert statements compiled away): the errors the statement
    # promises must not hinge on an assert
    opt = {"PYTHONOPTIMIZE": "1"}
    specs.append(dict(name="frontends-O", mode="interp", what="frontends", seed=seed, env=opt))
    specs.append(dict(name="shortage-O", mode="interp", what="shortage", part=0, parts=2 if q else 6, Kmax=4 if q else 5, env=opt))
    specs.append(dict(name="nodonor-O", mode="interp", what="nodonor", seed=seed, part=1, n=4, env=opt))
    specs.append(dict(name="tasks-O", mode="interp", what="tasks", input=1, mp=True, seed=seed, classes=1, env=opt))
    # the same task faults with the call made from a thread of the caller's program other than the main thread
    for mp in (False, True):
        specs.append(dict(name="tasks-thread-%s" % ("mp" if mp else "sp"), mode="interp", what="tasks", input=0 if mp else 1, mp=mp, seed=seed,
                          classes=1, in_thread=True))
    if not q:
        for i in range(3):
            specs.append(dict(name="death-%d" % i, mode="interp", what="death", input=i, seed=seed, timeout=240))
    return specs


def make_input(seed, i):
    rng = np.random.default_rng([seed, 20, i])
    wc.NW_CAP[0] = 6
    case = wc.gen_single(rng, "small") if i % 2 == 0 else wc.gen_joint(rng, "joint")
    case["K"] = 3
    case["data"]["n_reg"] = 3
    case["data"]["seg"] = 8
    case["data"]["flavor"] = "plain"
    case["biased"] = True
    case.pop("start_method", None)     # (the start method is a configuration of its own here, not part of the input)
    case["limit"] = 3
    case["eps"] = 0.0
    case["m"] = 2
    case["beta"] = dict(form="float", value=5.0)
    case["lam"] = dict(form="float", value=0.11)
    if isinstance(case["data"]["T"], int):
        case["data"]["T"] = 70
    case["nproc"] = 3
    if i % 2 == 0:
        # a run that repopulates a cluster in its second round (state kept about "this run's" donations must not outlive a failure)
        case["init"] = dict(kind="giant", small=1)
        case["limit"] = 4
    return case


def _mp_helper(pid):
    """multiprocessing's own long-lived helpers (resource tracker, fork server) are not workers of a call: they are started once per
    interpreter under the spawn / forkserver start methods and deliberately outlive every pool."""
    try:
        with open("/proc/%d/cmdline" % pid, "rb") as f:
            cmd = f.read().replace(b"\0", b" ")
    except OSError:
        return False
    return b"multiprocessing.resource_tracker" in cmd or b"multiprocessing.forkserver" in cmd


def children_of_self():
    out = []
    base = "/proc/%d/task" % os.getpid()
    try:
        for t in os.listdir(base):
            try:
                with open("%s/%s/children" % (base, t)) as f:
                    out.extend(int(x) for x in f.read().split())
            except OSError:
                pass
    except OSError:
        pass
    # zombies that have already exited are not "left behind workers"
    live = []
    for pid in out:
        try:
            with open("/proc/%d/stat" % pid) as f:
                state = f.read().rsplit(")", 1)[1].split()[0]
            if state != "Z" and not _mp_helper(pid):
                live.append(pid)
        except OSError:
            pass
    return live


def _cpu_ticks(pids):
    tot = 0
    for pid in pids:
        try:
            with open("/proc/%d/stat" % pid) as f:
                parts = f.read().rsplit(")", 1)[1].split()
            tot += int(parts[11]) + int(parts[12])
        except (OSError, IndexError, ValueError):
            pass
    return tot


def _proc_states(pids):
    out = {}
    for pid in pids:
        try:
            with open("/proc/%d/stat" % pid) as f:
                out[str(pid)] = f.read().rsplit(")", 1)[1].split()[0]
        except OSError:
            out[str(pid)] = "gone"
    return out


class HangGuard:
    """Logical hang detection around one call (quick tier too): if the call has not come back after `patience` seconds (cases take
    well under a second), the guard looks for *evidence* that it never will: the main thread is blocked in the pool's wait/get, and
    over a further observation window neither this process' workers nor its own threads consume any CPU time.  Only then is the
    hang reported as a violation; otherwise the firing is inconclusive."""

    def __init__(self, res, case, label, patience=45.0):
        self.res, self.case, self.label, self.patience = res, case, label, patience
        self.done = threading.Event()

    def __enter__(self):
        self.t = threading.Thread(target=self._watch, daemon=True)
        self.t.start()
        return self

    def __exit__(self, *a):
        self.done.set()
        return False

    def _watch(self):
        if self.done.wait(self.patience):
            return
        main_id = threading.main_thread().ident
        frame = sys._current_frames().get(main_id)
        stack = traceback.extract_stack(frame) if frame else []
        in_wait = any(f.filename.endswith(("multiprocessing/pool.py", "threading.py", "multiprocessing/connection.py")) and
                      f.name in ("wait", "get", "join", "_wait_for_tstate_lock", "poll") for f in stack)
        kids = children_of_self()
        t0 = _cpu_ticks(kids)
        if self.done.wait(5.0):
            return
        t1 = _cpu_ticks(kids)
        workers_idle = (t1 - t0) <= 2
        # the pool's own plumbing: a dead handler thread can never deliver the awaited result
        import gc
        import multiprocessing.pool as mpp
        handlers_dead, outstanding = [], 0
        for o in gc.get_objects():
            try:
                if isinstance(o, mpp.Pool):
                    outstanding += len(getattr(o, "_cache", {}) or {})
                    for name in ("_result_handler", "_task_handler", "_worker_handler"):
                        th = getattr(o, name, None)
                        if th is not None and not th.is_alive():
                            handlers_dead.append(name)
            except Exception:
                pass
        ev = dict(stack_tail=["%s:%s:%d" % (os.path.basename(f.filename), f.name, f.lineno) for f in stack[-7:]], blocked_in_pool_wait=in_wait,
                  live_workers=len(kids), worker_cpu_ticks_in_5s=t1 - t0, outstanding_results=outstanding, dead_pool_threads=handlers_dead,
                  worker_states=_proc_states(kids))
        self.res.counters["hang_evidence_" + self.label[:40]] = ev
        if in_wait and outstanding > 0 and (handlers_dead or workers_idle):
            self.res.violation("%s: the call neither returns nor raises: after %ds the main thread is blocked in %s waiting for %d result(s) while %s" % (
                self.label, int(self.patience) + 5, ev["stack_tail"][-4:], outstanding,
                ("the pool's %s thread is dead" % handlers_dead[0]) if handlers_dead else ("its %d worker(s) do no work" % len(kids))), self.case)
        else:
            self.res.inconclusive.append("%s: watchdog fired without the logical evidence of a hang: %s" % (self.label, ev))
        self.res.flush()
        for k in kids:
            try:
                os.kill(k, 9)
            except OSError:
                pass
        os._exit(0)


def faulted_call(res, case, expect, label, key):
    """Run `case` (which carries a fault plan); check the C20 oracle.  expect = (exception class name, message substring)."""
    with warnings.catch_warnings(record=True) as rec:
        warnings.simplefilter("always")
        with HangGuard(res, case, label):
            run = e2e.run_case(case)
        held = run.exc
        res.evaluations += 1
        fired = held is not None
        if run.result is not None:
            # the injected fault may legitimately not have been reached (fewer rounds than planned)
            reached = _fault_reached(run, case)
            if reached:
                res.violation("%s: the call returned a result although the fault fired" % label, case)
            else:
                res.count("faults_not_reached")
            return False
        cls, sub = expect
        tname = type(held).__name__
        if tname != cls or (sub and sub not in str(held)) or (sub is None and getattr(held, "args", ()) != ()):
            res.violation("%s: raised %s(%s), expected %s mentioning %r" % (label, tname, str(held)[:120], cls, sub), case)
        # leftover workers while the exception (and its traceback) is still referenced
        polls = 0
        kids = children_of_self()
        while kids and polls < 50:
            time.sleep(0.02)
            polls += 1
            kids = children_of_self()
        res.maxi("child_polls_needed", polls)
        if kids:
            res.violation("%s: %d worker process(es) still alive 1 s after the call raised (exception still referenced)" % (label, len(kids)), case)
        run.exc = None
        run = None
        held = None
        instrument.reset_run()
        gc.collect()
        rw = [str(w.message) for w in rec if issubclass(w.category, ResourceWarning) and "pool" in str(w.message).lower()]
        if rw:
            res.violation("%s: ResourceWarning after the failed call: %s" % (label, rw[0][:120]), case)
    res.nontriv(key)
    res.count("faults_fired")
    return True


def _fault_reached(run, case):
    if (case.get("init") or {}).get("kind") == "raise":
        return True
    # (the "natural" scenario injects nothing: when eigh happens not to raise on the NaN covariance there is no failure to surface)
    for k in (case.get("task_plan") or {}):
        if int(k) < len(run.tasks):
            return True
    for (ph, rnd) in (case.get("phase_plan") or []):
        if any(p["phase"] == ph and p["round"] == rnd for p in run.phases):
            return True
    return False


def clean_call(res, case, ref_digest, label):
    c = {k: v for k, v in case.items() if k not in ("task_plan", "phase_plan")}
    run = e2e.run_case(c)
    res.evaluations += 1
    if run.exc is not None:
        res.violation("%s: the clean call after the failure raised %s" % (label, run.exc_tag), case)
        return None
    d = dg.digest(run.result)
    if ref_digest is not None and d != ref_digest:
        res.violation("%s: the clean call after the failure returns a different result (digest %s vs %s)" % (label, d[:16], ref_digest[:16]), case)
    res.count("clean_calls_after_failure")
    return d


def learn(case):
    run = e2e.run_case(case)
    if run.exc is not None:
        return None
    R = sum(1 for p in run.phases if p["phase"] == "label")
    return dict(R=R, ntasks=len(run.tasks), digest=dg.digest(run.result), phases=[(p["phase"], p["round"]) for p in run.phases])


_orig_run_case = e2e.run_case


def run_case_with_phase_plan(case):
    """e2e.run_case resets PLAN; install the phase faults after the reset via the init-labels hook point."""
    return _orig_run_case(case)


def run_tasks(spec, res):
    case = make_input(spec["seed"], spec["input"])
    case["mp"] = spec["mp"]
    if spec.get("in_thread"):
        case["in_thread"] = True
    info = learn(case)
    if info is None:
        res.inconclusive.append("clean reference run of input %d failed" % spec["input"])
        return
    res.counters["reference"] = {"input%d" % spec["input"]: dict(R=info["R"], tasks=info["ntasks"])}
    for ci in range(spec["classes"]):
        for n in range(info["ntasks"]):
            cls = EXC_ROT[(n + ci) % len(EXC_ROT)]
            msg = "injected-%d-%s" % (n, cls)
            if (n + ci) % 5 == 4:
                cls, msg = ["AssertionError", "MemoryError", "KeyError"][(n // 5) % 3], None      # an exception with empty args
            c = dict(case)
            c["task_plan"] = {str(n): {"raise_": (cls, msg)}}
            label = "task %d (round %d, cluster %d) raises %s, %s pool%s" % (n, n // case["K"], n % case["K"], cls, "3-process" if spec["mp"] else "single-process",
                                                                              ", call made from a non-main thread" if spec.get("in_thread") else "")
            if spec.get("in_thread"):
                res.count("faulted_calls_from_a_non_main_thread")
            fired = faulted_call(res, c, (cls, msg), label, "task-%d-%s-%s-in%d%s" % (n, cls, spec["mp"], spec["input"], "-thr" if spec.get("in_thread") else ""))
            if fired:
                clean_call(res, case, info["digest"], label)
    res.sample(dict(case=case, rounds=info["R"], tasks=info["ntasks"], pool="3-process" if spec["mp"] else "single-process"))


def run_phases(spec, res):
    case = make_input(spec["seed"], spec["input"])
    case["mp"] = False
    info = learn(case)
    if info is None:
        res.inconclusive.append("clean reference run of input %d failed" % spec["input"])
        return
    PH_ROT = EXC_ROT + ["KeyboardInterrupt", "SystemExit"]
    for j, (ph, rnd) in enumerate(info["phases"]):
        for when in ("before", "after"):
            cls = PH_ROT[(j + (when == "after")) % len(PH_ROT)]
            msg = "phase-%s-%d-%s" % (ph, rnd, when)
            c = dict(case)
            c["phase_plan"] = [(ph, rnd)]
            c["phase_fault"] = {"phase": ph, "round": rnd, "raise_": (cls, msg), "when": when}
            label = "phase %s of round %d raises %s (%s the phase ran)" % (ph, rnd, cls, when)
            fired = faulted_call(res, c, (cls, msg), label, "phase-%s-%d-%s-in%d" % (ph, rnd, when, spec["input"]))
            if fired:
                clean_call(res, case, info["digest"], label)
    res.sample(dict(case=case, phases=info["phases"]))


def run_frontends(spec, res):
    import fast_ticc
    rng = np.random.default_rng([spec["seed"], 201])
    d = rng.normal(size=(40, 2))
    kw = dict(window_size=2, num_clusters=2, iteration_limit=2, min_cluster_size=2)
    trials = [("list -> ticc_labels", lambda: fast_ticc.ticc_labels([d, d], **kw), "ticc_joint_labels"),
              ("tuple -> ticc_labels", lambda: fast_ticc.ticc_labels((d, d), **kw), "ticc_joint_labels"),
              ("generator -> ticc_labels", lambda: fast_ticc.ticc_labels((x for x in [d, d]), **kw), "ticc_joint_labels"),
              ("2-D array -> ticc_joint_labels", lambda: fast_ticc.ticc_joint_labels(d, **kw), "ticc_labels"),
              ("list of one -> ticc_labels", lambda: fast_ticc.ticc_labels([d], **kw), "ticc_joint_labels"),
              ("3 series list -> ticc_labels", lambda: fast_ticc.ticc_labels([d, d[:20], d[:30]], **kw), "ticc_joint_labels"),
              ("wide 2-D array (40x6, W=3) -> ticc_joint_labels", lambda: fast_ticc.ticc_joint_labels(rng.normal(size=(40, 6)), window_size=3, num_clusters=2, iteration_limit=2, min_cluster_size=2), "ticc_labels"),
              ("wide 2-D array (30x9, W=10) -> ticc_joint_labels", lambda: fast_ticc.ticc_joint_labels(rng.normal(size=(30, 9)), window_size=10, num_clusters=2, iteration_limit=2, min_cluster_size=2), "ticc_labels"),
              ("square 2-D array (12x12, W=2) -> ticc_joint_labels", lambda: fast_ticc.ticc_joint_labels(rng.normal(size=(12, 12)), window_size=2, num_clusters=2, iteration_limit=2, min_cluster_size=2), "ticc_labels"),
              ("list of lists -> ticc_labels", lambda: fast_ticc.ticc_labels([[1.0, 2.0], [2.0, 1.0], [0.5, 0.1], [3.0, 1.0], [2.0, 2.0], [1.0, 0.0]], **kw), None)]
    for name, f, must in trials:
        case = dict(what="frontends", trial=name)
        try:
            with instrument.quiet():
                f()
            res.violation("%s returned a result instead of raising TypeError" % name, case)
        except TypeError as e:
            if must is not None and must not in str(e):
                res.violation("%s: TypeError does not name the right entry point %s: %s" % (name, must, str(e)[:150]), case)
        except Exception as e:
            if must is None:
                res.count("frontend_other_errors")          # a plain list of lists is not one of the two array kinds: any error will do
            else:
                res.violation("%s raised %s(%s) instead of a TypeError naming %s" % (name, type(e).__name__, str(e)[:100], must), case)
        res.evaluations += 1
        kids = children_of_self()
        if kids:
            res.violation("%s: worker processes left behind: %s" % (name, kids), case)
        res.nontriv("frontend-" + name)
        res.count("frontend_swaps")
    res.sample(dict(what="swapped front ends", trials=[t[0] for t in trials]))


def run_initfaults(spec, res):
    """Failures before the first round (mixture model refuses the data; the initial labelling raises): same oracle."""
    from ticcmon import inject
    rng = np.random.default_rng([spec["seed"], 203])
    for j in range(spec["n"]):
        wc.NW_CAP[0] = 4
        case = wc.gen_single(rng, "small") if j % 3 else wc.gen_joint(rng, "joint")
        case["data"]["flavor"] = "plain"
        case["biased"] = True
        case["eps"] = 0.0
        case["mp"] = bool(j % 2)
        case["nproc"] = 3
        kind = ["too_few_points", "init_raises"][j % 2]
        if kind == "too_few_points":
            case["K"] = 6
            if isinstance(case["data"]["T"], int):
                case["data"]["T"] = case["W"] + 2          # 3 stacked points < 6 clusters: scikit-learn refuses
            else:
                case["data"]["T"] = [case["W"], case["W"] + 1]
            expect = ("ValueError", "")
        else:
            case["init"] = dict(kind="raise", cls=EXC_ROT[j % len(EXC_ROT)], msg="init-fault-%d" % j)
            expect = (case["init"]["cls"], case["init"]["msg"])
        fired = faulted_call(res, case, expect, "failure before round 0 (%s, %s pool)" % (kind, "3-process" if case["mp"] else "single-process"),
                             "init-%s-%d" % (kind, j))
        if fired:
            res.count("init_faults_fired")
        if j == 0:
            res.sample(case)


def run_shortage(spec, res):
    """Component level: every way the donors can run out (no cluster with 2m points, or capacity used up by earlier refills
    of the same call) must surface as the RuntimeError naming the donor shortage - never as a returned state."""
    import itertools
    import random
    from fast_ticc import cluster_maintenance as cm
    from ticcmon.checks import c08
    from ticcmon.oracles import repop
    idx = 0
    for m in (1, 2, 3):
        for K in range(2, spec["Kmax"] + 1):
            for sizes in itertools.product(range(0, 4 * m + 2), repeat=K):
                R = repop.needs_refill(sizes)
                if not R or sum(sizes) == 0:
                    continue
                caps = [repop.capacity(s_, m) if k not in R else 0 for k, s_ in enumerate(sizes)]
                if sum(caps) >= len(R):
                    continue
                idx += 1
                if idx % spec["parts"] != spec["part"]:
                    continue
                case = dict(what="shortage", sizes=list(sizes), m=m)
                random.seed(idx % 7)
                st = c08.build_state(list(sizes), m, [float(1 + (k * 7 + idx) % 3) for k in range(K)], np.random.default_rng([idx, 9]))
                res.evaluations += 1
                try:
                    out = cm.repopulate_empty_clusters(st)
                    res.violation("donor shortage (sizes %s, m=%d: capacity %d for %d under-populated clusters) returned a state with sizes %s "
                                  "instead of raising" % (list(sizes), m, sum(caps), len(R), [c.size for c in out.clusters]), case)
                except RuntimeError as e:
                    if "donor" not in str(e).lower():
                        res.violation("donor shortage raised a RuntimeError that does not name it: %s" % str(e)[:120], case)
                except Exception as e:
                    res.violation("donor shortage (sizes %s, m=%d) surfaced as %s(%s) instead of the RuntimeError naming it" % (
                        list(sizes), m, type(e).__name__, str(e)[:80]), case)
                res.count("shortage_states")
                if sum(1 for c_ in caps if c_ > 0):
                    res.count("shortage_states_with_partial_capacity")
                    res.nontriv("shortage-%s-%d" % (sizes, m))
    res.sample(dict(what="shortage grid", example=dict(sizes=[0, 0, 0, 7], m=2, capacity=2, recipients=3)))


def run_natural(spec, res):
    """A failure that arises inside a worker on its own: a one-window cluster under the unbiased estimator has a NaN covariance and the
    optimiser's eigen-decomposition raises LinAlgError in the worker.  Same oracle: the error surfaces, nothing hangs, no worker stays."""
    rng = np.random.default_rng([spec["seed"], 204])
    for j in range(spec["n"]):
        wc.NW_CAP[0] = 6
        case = wc.gen_single(rng, "small")
        case["data"]["flavor"] = "plain"
        case["data"]["T"] = 50
        case["data"]["N"] = 3                      # (LAPACK only refuses a NaN matrix of dimension >= 3; smaller ones come back as NaN)
        case["W"] = int(rng.integers(1, 3))
        case["K"] = 3
        case["biased"] = False
        case["biased_form"] = "bool"
        case["eps"] = 0.0
        case["limit"] = 3
        case["mp"] = bool(j % 2)
        case["nproc"] = 3
        case["task_plan"] = {}
        case["init"] = dict(kind="giant", small=1)        # clusters 1..K-1 hold exactly one window each
        fired = faulted_call(res, case, ("LinAlgError", ""), "natural LinAlgError inside a worker (%s pool)" % ("3-process" if case["mp"] else "single-process"),
                             "natural-%d" % j)
        if fired:
            res.count("natural_worker_failures")
        if j == 0:
            res.sample(case)


def run_nodonor(spec, res):
    rng = np.random.default_rng([spec["seed"], 202, spec["part"]])
    for j in range(spec["n"]):
        wc.NW_CAP[0] = 4
        case = wc.gen_single(rng, "small")
        case["data"]["flavor"] = "plain"
        case["data"]["T"] = 40
        case["K"] = int(rng.integers(3, 5))
        case["biased"] = True
        case["eps"] = 0.0
        case["limit"] = 5
        case["m"] = 30                              # 2m exceeds every cluster
        case["init"] = dict(kind="giant", small=1)  # singleton clusters: repopulation is needed in round 1
        case["mp"] = bool(j % 2)
        case["nproc"] = 2
        with warnings.catch_warnings(record=True) as rec:
            warnings.simplefilter("always")
            run = e2e.run_case(case)
            res.evaluations += 1
            if run.exc is None:
                # legitimately possible if relabelling left every cluster with >= 2 points
                sizes_ok = all(all(len(mm) >= 2 for mm in p["inp"]["members"]) for p in run.phases if p["phase"] == "repop")
                if not sizes_ok:
                    res.violation("a cluster had < 2 points and no cluster had 2m points, yet the run returned a result", case)
                res.count("nodonor_not_reached")
                continue
            e = run.exc
            if not (isinstance(e, RuntimeError) and "donor" in str(e).lower()):
                if run.exc_expected:
                    res.skipped(run.exc_tag.split(":")[0])
                    continue
                res.violation("donor shortage surfaced as %s(%s)" % (type(e).__name__, str(e)[:100]), case)
                continue
            kids = children_of_self()
            polls = 0
            while kids and polls < 50:
                time.sleep(0.02)
                polls += 1
                kids = children_of_self()
            if kids:
                res.violation("donor shortage: %d worker process(es) left behind while the exception is referenced" % len(kids), case)
            run = None
            e = None
            instrument.reset_run()
            gc.collect()
            rw = [str(w.message) for w in rec if issubclass(w.category, ResourceWarning) and "pool" in str(w.message).lower()]
            if rw:
                res.violation("donor shortage: ResourceWarning %s" % rw[0][:100], case)
        res.count("nodonor_errors")
        res.nontriv("nodonor-%d-%d" % (spec["part"], j))
        if j == 0:
            res.sample(case)


def run_death(spec, res):
    """Thorough tier: a worker dies mid-task (recorded finding worker-death-hangs)."""
    case = make_input(spec["seed"], spec["input"])
    case["mp"] = True
    info = learn(case)
    if info is None:
        res.inconclusive.append("clean reference run failed")
        return
    n = info["ntasks"] // 2
    die_file = os.path.join(os.environ.get("TICCMON_WORKDIR", "/tmp"), "die-%d-%d" % (os.getpid(), spec["input"]))
    c = dict(case)
    c["task_plan"] = {str(n): {"die": True, "die_file": die_file}}
    done = threading.Event()
    main_id = threading.main_thread().ident

    def watchdog():
        if done.wait(25.0):
            return
        frame = sys._current_frames().get(main_id)
        stack = traceback.extract_stack(frame) if frame else []
        in_pool_wait = any(f.filename.endswith(("multiprocessing/pool.py", "threading.py")) and f.name in ("wait", "get", "join") for f in stack)
        pid_dead = None
        try:
            pid = int(open(die_file).read().split()[0])
            pid_dead = not os.path.exists("/proc/%d" % pid)
        except Exception:
            pid = None
        from ticcmon.instrument import REC
        never_completed = n not in REC.completions
        res.evaluations += 1
        res.counters["hang_evidence"] = dict(stack_tail=["%s:%s" % (os.path.basename(f.filename), f.name) for f in stack[-4:]],
                                             in_pool_wait=in_pool_wait, worker_pid=pid, worker_exited=pid_dead,
                                             task_never_completed=never_completed)
        if in_pool_wait and pid_dead and never_completed:
            res.known_finding("worker-death-hangs", "worker %s died while running task %d; 25 s later the caller is still blocked in %s" % (
                pid, n, [f.name for f in stack[-2:]]), c)
            res.nontriv("death-%d" % spec["input"])
        else:
            res.inconclusive.append("watchdog fired without the logical evidence of a hang: %s" % res.counters["hang_evidence"])
        res.flush()
        for k in children_of_self():
            try:
                os.kill(k, 9)
            except OSError:
                pass
        os._exit(0)
    t = threading.Thread(target=watchdog, daemon=True)
    t.start()
    run = e2e.run_case(c)
    done.set()
    res.evaluations += 1
    if run.exc is None:
        res.violation("a worker died mid-task and the call still returned a result", c)
    else:
        res.count("worker_death_surfaced_as_exception")
        res.nontriv("death-%d" % spec["input"])
        kids = children_of_self()
        if kids:
            res.count("children_after_worker_death", len(kids))


def run_shard(spec, res):
    # phase faults: e2e.run_case resets the plan, so install the phase fault through a wrapper around reset_run
    orig_reset = instrument.reset_run
    what = spec["what"]
    if what == "phases":
        state = {"fault": None}

        def patched_run_case(case):
            state["fault"] = case.get("phase_fault")
            return _orig_run_case(case)

        def reset_with_fault():
            orig_reset()
            f = state["fault"]
            if f:
                instrument.PLAN["phase"][(f["phase"], f["round"])] = {"raise_": tuple(f["raise_"]), "when": f["when"]}
        instrument.reset_run = reset_with_fault
        e2e.run_case = patched_run_case
        try:
            run_phases(spec, res)
        finally:
            instrument.reset_run = orig_reset
            e2e.run_case = _orig_run_case
    elif what == "tasks":
        run_tasks(spec, res)
    elif what == "frontends":
        run_frontends(spec, res)
    elif what == "nodonor":
        run_nodonor(spec, res)
    elif what == "initfaults":
        run_initfaults(spec, res)
    elif what == "shortage":
        run_shortage(spec, res)
    elif what == "natural":
        run_natural(spec, res)
    else:
        run_death(spec, res)


def replay(case, res):
    if case.get("what") == "shortage":
        res.inconclusive.append("re-run ./check C20: the shortage grid is enumerated, sizes=%s m=%s" % (case.get("sizes"), case.get("m")))
        return
    if case.get("what") == "frontends":
        run_frontends(dict(seed=0), res)
        return
    info = learn({k: v for k, v in case.items() if k not in ("task_plan", "phase_plan", "phase_fault")})
    if case.get("phase_fault"):
        f = case["phase_fault"]
        orig_reset = instrument.reset_run

        def reset_with_fault():
            orig_reset()
            instrument.PLAN["phase"][(f["phase"], f["round"])] = {"raise_": tuple(f["raise_"]), "when": f["when"]}
        instrument.reset_run = reset_with_fault
        try:
            faulted_call(res, case, tuple(f["raise_"]), "replay", "replay")
        finally:
            instrument.reset_run = orig_reset
    elif case.get("task_plan"):
        spec = list(case["task_plan"].values())[0]
        exp = tuple(spec["raise_"]) if spec.get("raise_") else ("?", "")
        faulted_call(res, case, exp, "replay", "replay")
    if info:
        clean_call(res, case, info["digest"], "replay")


def finalize(merged, tier):
    out = {"inconclusive": []}
    q = tier == "quick"
    c = merged["counters"]
    for key, least in (("faults_fired", 25 if q else 300), ("clean_calls_after_failure", 25 if q else 300), ("frontend_swaps", 9),
                       ("init_faults_fired", 4 if q else 20), ("natural_worker_failures", 3 if q else 12), ("shortage_states_with_partial_capacity", 200 if q else 2000),
                       ("nodonor_errors", 2 if q else 6), ("faulted_calls_from_a_non_main_thread", 5)):
        if c.get(key, 0) < least:
            out["inconclusive"].append("monitor counter %s=%d below %d" % (key, c.get(key, 0), least))
    out["fault_plan"] = "every task index and every (phase, round, before/after) of each driven run, both pool modes"
    return out
