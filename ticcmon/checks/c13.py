"""C13 - labels and membership always describe one partition; copies do not alias; phases keep their input."""
from ticcmon import e2e_check, history, instrument
from ticcmon.checks import common, e2e_common as ec

LEVEL = "exploration"
RULE = ("(iv) random operation histories (<=30 steps over assign / equal assign / shallow copy / deep copy / replace clusters / repopulate / "
        "statistics / optimise / relabel / scribble over a deep copy) against a shadow model with the documented sharing semantics; (i-iii) "
        "traced runs with an icontract class invariant on ModelState, per-phase input immutability and an alias monitor over every state seen "
        "earlier; non-trivial = history with >=1 phase operation and >=1 copy, or traced run with >=2 rounds; distinct by seed / case hash")
ASSUMPTIONS = ["scoring-phase cache fill (inverse_covariance, log_determinant) on the input state is allowed (caches determined by the MRF)",
               "the class invariant is evaluated only in traced runs, where no two states with different labels share cluster cells"]
SHARD_TIMEOUT = {"quick": 300, "thorough": 3400}
MIX = {"single:small": 3, "single:repop": 3, "single:general": 1, "joint:joint": 1}
PROPS = ("C13",)
EVALS = {"n": 0}


class InvariantBroken(Exception):
    pass


def partition_invariant(self):
    EVALS["n"] += 1
    if self.clusters is None or self.arguments is None:
        return True
    return not instrument.partition_issues(self)


def install_invariant():
    import icontract
    from fast_ticc.containers import model_state as ms
    if getattr(ms.ModelState, "_ticcmon_inv", False):
        return
    icontract.invariant(partition_invariant, error=InvariantBroken)(ms.ModelState)
    ms.ModelState._ticcmon_inv = True


def run_bigdata(spec, res):
    """deep_copy on a state whose training data is tens of megabytes (size-dependent copying must still share nothing)."""
    import numpy as np
    from fast_ticc.containers import model_state as ms, arguments
    from ticcmon import history
    rows, cols = 700000, 8           # 42.7 MiB of float64
    data = np.zeros((rows, cols))
    data[::1000, 0] = 1.0
    lam = np.full((cols, cols), 0.1)
    args = arguments.UserArguments(lam, 5, 1.0, 2, 0, 3, 1, 1, True)
    st = ms.ModelState.empty_model(args, data)
    labels = [i % 3 for i in range(3000)]
    st.point_labels = labels
    for k, c in enumerate(st.clusters):
        c.computed_covariance = np.eye(2) * (k + 1)
        c.stacked_data_mean = np.zeros(cols)
    cp = st.deep_copy()
    res.evaluations += 1
    shared = history.deep_copy_shares(st, cp)
    for s_ in shared[:2]:
        res.violation("deep_copy of a state with %.0f MiB of training data: %s" % (data.nbytes / 2 ** 20, s_), dict(what="bigdata"))
    cp.stacked_training_data[0, 0] = 99.0
    cp.arguments.sparsity_weight[0, 0] = 7.0
    if st.stacked_training_data[0, 0] != 1.0 or lam[0, 0] != 0.1:
        res.violation("writing into a deep copy (large training data) changed the source", dict(what="bigdata"))
    res.count("bigdata_deep_copies")
    res.nontriv("bigdata")


def plan(tier, seed):
    q = tier == "quick"
    specs = ec.plan_e2e(seed, 13, MIX, 90 if q else 1200, nwcap=12 if q else 24)
    if not q:
        specs += ec.fixture_specs()
    nh = 1500 if q else 40000
    parts = 14 if q else 32
    for p, n in enumerate(common.split_counts(nh, parts)):
        specs.append(dict(name="hist-%d" % p, mode="interp", what="hist", n=n, base=seed * 1000003 + p * 100000))
    specs.append(dict(name="bigdata", mode="interp", what="bigdata"))
    return specs


def nontrivial(run, I):
    return "r" if I.counts.get("rounds", 0) >= 2 else None


def run_shard(spec, res):
    if spec["what"] == "bigdata":
        run_bigdata(spec, res)
        return
    if spec["what"] in ("e2e", "fixture"):
        install_invariant()
        before = EVALS["n"]
        ec.run_e2e_shard(spec, res, PROPS, nontrivial)
        res.count("invariant_evaluations", EVALS["n"] - before)
        ib = [k for k in res.not_completed if "InvariantBroken" in k]
        for k in ib:
            res.violation("class invariant of ModelState broken inside a traced run: %s" % k, None)
    else:
        for i in range(spec["n"]):
            seed = spec["base"] + i
            viol, st = history.run_history(seed)
            res.evaluations += 1
            for k, v in st.items():
                if k != "trace":
                    res.count("op:" + k, v)
            for msg in viol[:2]:
                res.violation("history seed %d: %s (ops %s)" % (seed, msg, st["trace"][-6:]), dict(what="hist", seed=seed))
            phases = sum(st.get(k, 0) for k in ("repop", "stats", "optimise", "relabel"))
            copies = sum(st.get(k, 0) for k in ("shallow", "deep", "shallow_fresh_assign"))
            if phases and copies:
                res.nontriv("h%d" % seed)
            if i == 0:
                res.sample(dict(what="history", seed=seed, operations=st["trace"]))


def replay(case, res):
    if case and case.get("what") == "bigdata":
        run_bigdata({}, res)
        return
    if case and case.get("what") == "hist":
        viol, st = history.run_history(case["seed"])
        res.evaluations += 1
        for msg in viol[:2]:
            res.violation("history seed %d: %s" % (case["seed"], msg), case)
    else:
        install_invariant()
        e2e_check.replay_case(res, case, PROPS)


def finalize(merged, tier):
    out = {"inconclusive": []}
    q = tier == "quick"
    ec.min_counter(merged, out, "phase_boundaries_checked", 500 if q else 5000)
    ec.min_counter(merged, out, "invariant_evaluations", 2000 if q else 20000)
    ec.min_counter(merged, out, "op:deep_mutate", 500 if q else 5000)
    ec.min_counter(merged, out, "op:repop_changed", 50 if q else 500)
    ec.min_counter(merged, out, "op:relabel", 500 if q else 5000)
    ec.min_counter(merged, out, "op:assign_swap", 500 if q else 5000)
    ec.min_counter(merged, out, "op:assign_unlabelled", 300 if q else 3000)
    ec.min_counter(merged, out, "bigdata_deep_copies", 1)
    ec.unexpected(merged, out)
    return out
