"""C14 - results are reproducible and independent of process scheduling and of earlier calls."""
import os

import numpy as np

from ticcmon import e2e
from ticcmon.checks import common
from ticcmon.oracles import digest as dg
from ticcmon.workloads import cases as wc

LEVEL = "exploration"
RULE = ("for each input (data, hyper-parameters, generator seed): a reference digest from a fresh interpreter (one process, no delays, no "
        "earlier call) is compared with the digests under num_processors 1..8 x multiprocessing off/on x per-task delay schedules that force "
        "identity / reverse / random completion orders x 0..3 preceding calls with other shapes, in two further interpreters with different "
        "configuration orders; non-trivial = a configuration whose observed completion order was not the submission order; distinct by "
        "(input, configuration, observed permutation)")
ASSUMPTIONS = ["completion order observed through apply_async callbacks in the parent's result-handler thread",
               "interpreters run with OMP/OPENBLAS threads = 1 except the 'wide' shards, which leave the library multi-threaded and compare configurations inside one interpreter",
               "environment dimensions (start method, hash seed, warning filters, jumping clocks, forked child, mixture out of EM steps) are applied to whole configurations; the reference run has none of them"]
SHARD_TIMEOUT = {"quick": 300, "thorough": 3400}


def plan(tier, seed):
    q = tier == "quick"
    n_inputs = 7 if q else 40
    specs = []
    # wide problems (N*W around 200) with the linear-algebra library left multi-threaded, as on a user's machine: worker processes
    # whose numerical environment differs from the parent's only show at sizes where the library splits its work (started first:
    # they are the slowest shards of this check on a loaded machine)
    for p in range(1 if q else 3):
        th = [2, 3, 8][p]     # few threads in the quick tier: 8 spinning BLAS threads beside 15 other shards cost minutes on a busy machine
        specs.append(dict(name="wide-%d" % p, mode="interp", role="wide", part=p, seed=seed, nconf=2 if q else 4, timeout=900 if q else 3400,
                          env={"OPENBLAS_NUM_THREADS": th, "OMP_NUM_THREADS": th, "MKL_NUM_THREADS": th}))
    modes = ["interp"] if q else ["interp", "interp", "interp", "jit"]
    for i in range(n_inputs):
        mode = modes[i % len(modes)]
        specs.append(dict(name="ref-%d" % i, mode=mode, role="ref", input=i, seed=seed))
        specs.append(dict(name="cfgA-%d" % i, mode=mode, role="A", input=i, seed=seed, nconf=5 if q else 12))
        specs.append(dict(name="cfgB-%d" % i, mode=mode, role="B", input=i, seed=seed, nconf=4 if q else 12, big=(not q and i % 4 == 0),
                          env={"PYTHONHASHSEED": 1000 + 17 * i}))    # another string-hash seed than the reference interpreter's
    for p in range(2 if q else 6):
        specs.append(dict(name="entry-%d" % p, mode="interp", role="entry", part=p, seed=seed, n=20 if q else 80))
    return specs


def run_wide(spec, res):
    rng = np.random.default_rng([spec["seed"], 1415, spec["part"]])
    N, W = [(4, 50), (6, 34), (10, 20), (3, 70)][int(rng.integers(0, 4))]
    case = dict(front="single", data=dict(gen="regime", seed=int(rng.integers(0, 2 ** 31)), T=130 + 3 * W, N=N, n_reg=2, seg=40, scale=1.0, flavor="plain"),
                W=W, K=2, beta=dict(form="float", value=5.0), lam=dict(form="float", value=float(rng.choice([0.11, 0.3]))), m=2, limit=1,
                biased=True, eps=0.0, nproc=1, mp=False, rng_seed=1, init=dict(kind="blocks"))
    confs = [dict(name="np1-mp", nproc=1, mp=True), dict(name="np4-mp", nproc=4, mp=True), dict(name="np1-sp", nproc=1, mp=False),
             dict(name="np8-mp", nproc=8, mp=True)][:spec["nconf"]]
    digests = {}
    for conf in confs:
        d, perms, run = run_config(case, conf, res)
        res.evaluations += 1
        digests[conf["name"]] = d
        if d.startswith("EXC:"):
            res.skipped(d)
        else:
            res.count("wide_runs_with_multithreaded_linear_algebra")
        res.maxi("forks", instrument_forks())
    res.note("wide_shapes", [N, W])
    ok = {k: v for k, v in digests.items() if not v.startswith("EXC:")}
    names = sorted(ok)
    for a in names[1:]:
        res.count("wide_pairs_compared")
        if ok[a] != ok[names[0]]:
            res.violation("wide problem (N=%d, W=%d, linear-algebra library multi-threaded): configurations %s and %s return different results (%s vs %s)"
                          % (N, W, names[0], a, ok[names[0]][:16], ok[a][:16]),
                          dict(case=case, confs=[c for c in confs if c["name"] in (names[0], a)], env=spec.get("env")))
    res.nontriv("wide-%d-%dx%d" % (spec["part"], N, W))
    res.sample(dict(role="wide", case=case, digests=digests))


def make_input(seed, i):
    rng = np.random.default_rng([seed, 14, i])
    wc.NW_CAP[0] = 8
    case = wc.gen_single(rng, "small" if i % 3 else "repop") if i % 4 != 3 else wc.gen_joint(rng, "joint")
    case["K"] = int(rng.integers(3, 6))
    case["limit"] = int(rng.choice([3, 20]))
    case["eps"] = 0.0
    # inputs on which a run completes: every regime present, no singleton + unbiased estimator
    case["data"]["n_reg"] = case["K"]
    case["data"]["seg"] = 8
    case["data"]["flavor"] = "plain"
    case["biased"] = True
    case.pop("start_method", None)     # (the start method is a configuration of its own here, not part of the input)
    case["m"] = int(rng.integers(1, 4))
    if i % 3 == 1 and not case.get("init"):
        case["gmm_max_iter"] = 1          # the seeding mixture runs out of EM steps (in every configuration of this input alike)
        case["limit"] = 1                 # one round: the returned MRFs are fitted to the seeding labels themselves
    if isinstance(case["data"]["T"], int):
        case["data"]["T"] = max(case["data"]["T"], 80)
    else:
        case["data"]["T"] = [t + 25 for t in case["data"]["T"]]
    return case


def transposed_shape(case, seed):
    """A small run whose (sensors, window) = (W, N) of `case` (or (N*W, 1) when N == W)."""
    from ticcmon.workloads import data as wd
    d0 = case["data"]
    N = int(d0["N"])
    W = int(case["W"])
    N2, W2 = (W, N) if N != W else (N * W, 1)
    other = dict(case)
    other["front"] = "single"
    other.pop("container", None)
    other["data"] = dict(d0)
    other["data"].update(N=N2, T=60 + W2, seed=int(d0["seed"]) + 17, n_reg=3)
    other["W"] = W2
    other["K"] = 3
    other["limit"] = 2
    other["init"] = None
    if other["beta"]["form"].startswith("vector"):
        other["beta"] = dict(form="float", value=5.0)
    if other["lam"]["form"].startswith("matrix"):
        other["lam"] = dict(form="float", value=0.11)
    return other


def j_debug(conf):
    return bool(conf.get("debug_before"))


def delays_for(kind, K, rounds, rng):
    plan = {}
    for r in range(rounds):
        if kind == "reverse":
            d = [(K - 1 - k) * 0.04 for k in range(K)]
        elif kind == "random":
            d = [float(x) * 0.03 for x in rng.permutation(K)]
        elif kind == "identity":
            d = [k * 0.03 for k in range(K)]
        else:
            d = [0.0] * K
        for k in range(K):
            if d[k] > 0:
                plan[str(r * K + k)] = {"delay": d[k]}
    return plan


def run_config(case, conf, res):
    c = dict(case)
    c["nproc"] = conf["nproc"]
    c["mp"] = conf["mp"]
    if conf.get("start") and conf["mp"]:
        c["start_method"] = conf["start"]
        res.count("configurations_with_start_method_" + conf["start"])
    if conf.get("warnings"):
        c["warnings"] = conf["warnings"]
        res.count("configurations_under_other_warning_filters")
    if conf.get("in_child"):
        return run_config_in_child(c, case, res)
    c["task_plan"] = conf.get("task_plan") or {}
    run = e2e.run_case(c)
    K = case["K"]
    perms = []
    for r in range(len(run.tasks) // K):
        order = [t - r * K for t in run.completions if r * K <= t < (r + 1) * K]
        perms.append(tuple(order))
    if run.exc is not None:
        return "EXC:" + type(run.exc).__name__, perms, run
    return dg.digest(run.result), perms, run


class _Stub:
    phases = ()
    tasks = ()
    exc = None


def _child_main(conn, c, K):
    try:
        run = e2e.run_case(c)
        perms = []
        for r in range(len(run.tasks) // K):
            perms.append(tuple(t - r * K for t in run.completions if r * K <= t < (r + 1) * K))
        d = ("EXC:" + type(run.exc).__name__) if run.exc is not None else dg.digest(run.result)
        repop = any(p["phase"] == "repop" and [int(x) for x in p["inp"]["labels"]] != [int(x) for x in p["out"]["labels"]] for p in run.phases)
        conn.send((d, perms, repop))
    except BaseException as e:       # reported to the parent as an exception digest
        conn.send(("EXC:child:" + type(e).__name__, [], False))
    finally:
        conn.close()
        os._exit(0)


def run_config_in_child(c, case, res):
    """The library was imported (and used) in this process; the compared call is the FIRST call made in a forked child of it, which
    seeds the generators itself - a fork-based parameter sweep."""
    import multiprocessing
    import threading
    import time
    ctx = multiprocessing.get_context("fork")
    got = None
    for attempt in range(2):
        # fork from a quiescent parent: helper threads of earlier pools have ended (a lock held by another thread at the moment of the
        # fork would stay locked in the child for ever - a property of fork, not of the library)
        t_end = time.time() + 3.0
        while threading.active_count() > 1 and time.time() < t_end:
            time.sleep(0.02)
        a, b = ctx.Pipe(duplex=False)
        p = ctx.Process(target=_child_main, args=(b, c, case["K"]))
        p.start()
        b.close()
        if a.poll(90 if attempt == 0 else 150):
            try:
                got = a.recv()
            except EOFError:
                got = None
        p.join(10)
        if p.is_alive():
            p.kill()
            p.join(5)
        a.close()
        if got is not None:
            break
        res.count("forked_child_runs_repeated_after_silence")
    if got is None:
        res.inconclusive.append("the forked child running configuration did not report within 90 s and, repeated, within 150 s")
        return "EXC:nochild", [], _Stub()
    res.count("configurations_run_as_first_call_of_a_forked_child")
    stub = _Stub()
    stub.phases = [dict(phase="repop", inp=dict(labels=[0]), out=dict(labels=[1]))] if got[2] else []
    return got[0], got[1], stub


def cb_balance(rho, rp, tp, rd, td):
    if rp > 10 * rd:
        return rho * 2
    if rd > 10 * rp:
        return rho / 2
    return rho


def run_entry(spec, res):
    """The public optimiser entry point: the same problem solved again after other problems (same and different control parameters,
    with and without a step-size callback) must give the bit-identical matrix."""
    import hashlib
    from fast_ticc import admm
    from ticcmon.workloads import data as wd
    rng = np.random.default_rng([spec["seed"], 1414, spec["part"]])
    for i in range(spec["n"]):
        N, W = int(rng.integers(1, 4)), int(rng.integers(1, 5))
        n = N * W
        kw = dict(rho=float(rng.choice([0.5, 1.0, 2.0])), rho_update=cb_balance if i % 2 else None, max_iterations=200)
        problems = [wd.make_covariance(dict(seed=int(rng.integers(0, 2 ** 31)), n=n, kind=k, N=N, W=W, pts=n + 3)) for k in ("full", "diag", "samples")]
        lam = float(rng.choice([0.0, 0.05, 0.5]))

        def solve(S):
            return hashlib.sha256(np.asarray(admm.admm_optimize_theta(S.copy(), lam, W, N, **kw).theta, dtype=np.float64).tobytes()).hexdigest()[:16]
        first = solve(problems[0])
        solve(problems[1])
        solve(problems[2])
        again = solve(problems[0])
        res.evaluations += 4
        res.count("entry_point_repeat_comparisons")
        if first != again:
            res.violation("optimiser entry point: the same problem (N=%d W=%d rho=%g callback=%s) gives %s, and %s when solved again after two "
                          "other problems with the same control parameters" % (N, W, kw["rho"], bool(kw["rho_update"]), first, again),
                          dict(what="entry", N=N, W=W))
        res.nontriv("entry-%d-%d" % (spec["part"], i))


def run_shard(spec, res):
    if spec.get("role") == "entry":
        run_entry(spec, res)
        return
    if spec.get("role") == "wide":
        run_wide(spec, res)
        return
    seed, i = spec["seed"], spec["input"]
    case = make_input(seed, i)
    K = case["K"]
    rng = np.random.default_rng([seed, 141, i, {"ref": 0, "A": 1, "B": 2}[spec["role"]]])
    confs = []
    if spec["role"] == "ref":
        confs.append(dict(name="reference", nproc=1, mp=False))
    else:
        kinds = ["reverse", "random", "identity", "none", "random", "reverse"]
        for j in range(spec["nconf"]):
            mp = True if spec["role"] == "A" else (j % 3 != 0)
            nproc = int(rng.integers(2, 9)) if j % 2 == 0 else int(rng.integers(1, 9))
            if j == 0 and spec["role"] == "A":
                nproc = max(nproc, K)     # enough workers for a fully reversed completion order
            kind = kinds[(j + (3 if spec["role"] == "B" else 0)) % len(kinds)]
            confs.append(dict(name="np%d-%s-%s" % (nproc, "mp" if mp else "sp", kind), nproc=nproc, mp=mp,
                              task_plan=delays_for(kind, K, 25, rng), preceding=int(rng.integers(1, 4)) if spec["role"] == "B" and j % 2 == 0 else 0))
            if spec["role"] == "A" and j in (1, 3):
                # the caller's program selected another start method for worker processes
                confs[-1]["start"] = "spawn" if j == 1 else "forkserver"
                confs[-1]["name"] += "-" + confs[-1]["start"]
            if spec["role"] == "A" and j == 2:
                confs[-1]["warnings"] = "ignore"           # the caller silenced warnings
                confs[-1]["name"] += "-wignore"
            if spec["role"] == "A" and j == 4:
                # every task's clocks jump two hours ahead while it runs
                confs[-1]["task_plan"] = {str(t_): dict(confs[-1]["task_plan"].get(str(t_), {}), clock_jump=7200.0) for t_ in range(25 * K)}
                confs[-1]["name"] += "-clockjump"
                res.count("configurations_with_jumping_clocks")
            if spec["role"] == "B" and j == 1:
                confs[-1]["warnings"] = "always"
                confs[-1]["in_child"] = spec.get("mode", "interp") == "interp"    # (forking after Numba's thread pool started is unsafe)
                confs[-1]["preceding"] = max(1, confs[-1].get("preceding", 0))   # the parent has used the library before it forks
                confs[-1]["name"] += "-walways-child" if confs[-1]["in_child"] else "-walways"
            if spec["role"] == "B" and j == 3:
                confs[-1]["failing_before"] = True
            if spec["role"] == "B" and j == 2:
                confs[-1]["debug_before"] = True
                confs[-1]["preceding"] = max(1, confs[-1].get("preceding", 0))
            if spec["role"] == "B" and j == 0 and (spec.get("big") or i == 0):
                confs[-1]["preceding"] = 2
                confs[-1]["big_before"] = True
    digests = {}
    for conf in confs:
        for p in range(conf.get("preceding", 0)):
            other = make_input(seed + 1000 + p, (i + 1 + p) % 7)   # another shape: warms memoised helpers / compiled specialisations
            other["limit"] = 2
            if p == 0:
                # same N*W, different split: the shape most likely to collide in a badly keyed memo table
                other = transposed_shape(case, seed)
                res.count("preceding_calls_same_NW_other_split")
            if p == 1 and conf.get("big_before"):
                # a much larger problem first (N*W = 66): size-dependent settings or work-spaces must not stick
                other = dict(front="single", data=dict(gen="regime", seed=5 + i, T=90, N=11, n_reg=2, seg=8, scale=1.0, flavor="plain"), W=6, K=2,
                             beta=dict(form="float", value=5.0), lam=dict(form="float", value=0.5), m=2, limit=1, biased=True, eps=0.0,
                             nproc=1, mp=False, rng_seed=1, init=dict(kind="blocks"))
                res.count("preceding_calls_with_large_NW")
            if p == 0 and conf.get("preceding", 0) >= 1 and j_debug(conf):
                other = dict(case)                  # same shapes as the target call (same keys in every memo table)
                other["limit"] = 2
                other["nproc"], other["mp"], other["task_plan"] = 1, False, {}
                # an earlier call made while DEBUG logging was switched on for the library (a user chasing a problem)
                import logging
                lg = logging.getLogger("fast_ticc")
                old_level, h = lg.level, logging.NullHandler()
                lg.addHandler(h)
                lg.setLevel(logging.DEBUG)
                try:
                    e2e.run_case(other)
                finally:
                    lg.setLevel(old_level)
                    lg.removeHandler(h)
                res.count("preceding_calls_under_debug_logging")
            else:
                e2e.run_case(other)
            res.count("preceding_calls")
        if conf.get("failing_before"):
            # an earlier call on the same input that FAILS in its second round (after it may have repopulated a cluster)
            failing = dict(case)
            failing["nproc"], failing["mp"] = 1, False
            failing["task_plan"] = {str(2 * K - 1): {"raise_": ("ValueError", "earlier call fails")}}
            fr = e2e.run_case(failing)
            if fr.exc is not None and "earlier call fails" in str(fr.exc):
                res.count("preceding_calls_that_failed")
        d, perms, run = run_config(case, conf, res)
        res.evaluations += 1
        digests[conf["name"]] = d
        for pm in perms:
            if len(pm) == K:
                res.note("perms_K%d" % K, list(pm))
                if list(pm) != sorted(pm):
                    res.nontriv("in%d-%s-%s" % (i, conf["name"], pm))
                    res.count("non_identity_completion_orders")
        res.maxi("forks", instrument_forks())
        if any(p["phase"] == "repop" and [int(x) for x in p["inp"]["labels"]] != [int(x) for x in p["out"]["labels"]] for p in run.phases):
            res.count("configurations_with_a_repopulation_draw")
        if d.startswith("EXC:"):
            res.skipped(d)
    from ticcmon import instrument as _ins
    res.count("mixture_fits_not_converged_in_this_process", int(_ins.COUNTERS.get("mixture_fits_not_converged", 0)))
    res.counters["digests"] = {"input%d" % i: {spec["role"]: digests}}
    res.counters["cases"] = {"input%d" % i: case}
    res.sample(dict(input=i, role=spec["role"], case=case, digests=digests))


def instrument_forks():
    from ticcmon.instrument import REC
    return REC.fork_events


def replay(case, res):
    """case: dict(case=..., confs=[conf, conf]) - re-runs both configurations and compares."""
    if case.get("what") == "entry":
        res.inconclusive.append("re-run ./check C14 (entry-point sequences are generated per shard)")
        return
    d0, _, _ = run_config(case["case"], case["confs"][0], res)
    d1, _, _ = run_config(case["case"], case["confs"][1], res)
    res.evaluations += 2
    if d0 != d1:
        res.violation("digests differ between configurations %s and %s: %s vs %s" % (case["confs"][0]["name"], case["confs"][1]["name"], d0[:16], d1[:16]), case)


def finalize(merged, tier):
    out = {"inconclusive": [], "violations": []}
    digs = merged["counters"].get("digests", {})
    cases = merged["counters"].get("cases", {})
    compared = 0
    for inp, roles in digs.items():
        ref = (roles.get("ref") or {}).get("reference")
        if ref is None:
            out["inconclusive"].append("no reference digest for %s" % inp)
            continue
        if ref.startswith("EXC:"):
            continue
        for role, dd in roles.items():
            for name, d in dd.items():
                compared += 1
                if d != ref:
                    out["violations"].append({"msg": "%s: configuration %s (interpreter %s) gives digest %s, the reference run gives %s" % (
                        inp, name, role, d[:16], ref[:16]),
                        "case": {"case": cases.get(inp), "confs": [{"name": "reference", "nproc": 1, "mp": False}, _conf_from_name(name)]}})
    out["digests_compared"] = compared
    perms = {k: v for k, v in merged["counters"].items() if k.startswith("perms_K")}
    distinct = sum(1 for k, lst in perms.items() for pm in lst if pm != sorted(pm))
    out["distinct_non_identity_permutations_observed"] = distinct
    out["permutations_observed"] = perms
    if distinct < 3:
        out["inconclusive"].append("only %d distinct non-identity completion permutations were observed" % distinct)
    if merged["counters"].get("configurations_with_a_repopulation_draw", 0) < 3:
        out["inconclusive"].append("fewer than 3 compared configurations drew points for a repopulation (global-generator dependence unobserved)")
    if merged["counters"].get("preceding_calls_same_NW_other_split", 0) < 3:
        out["inconclusive"].append("fewer than 3 configurations were preceded by a call with the same N*W but another (N,W) split")
    if merged["counters"].get("preceding_calls_that_failed", 0) < 3:
        out["inconclusive"].append("fewer than 3 configurations were preceded by a call that failed in its second round")
    if merged["counters"].get("preceding_calls_under_debug_logging", 0) < 3:
        out["inconclusive"].append("fewer than 3 configurations were preceded by a call made under DEBUG logging")
    if merged["counters"].get("preceding_calls_with_large_NW", 0) < 1:
        out["inconclusive"].append("no compared configuration was preceded by a call with a large matrix size")
    if merged["counters"].get("entry_point_repeat_comparisons", 0) < (30 if tier == "quick" else 300):
        out["inconclusive"].append("entry-point history comparisons: %d" % merged["counters"].get("entry_point_repeat_comparisons", 0))
    if merged["counters"].get("configurations_with_start_method_spawn", 0) < 3:
        out["inconclusive"].append("fewer than 3 configurations ran their worker processes under the spawn start method")
    if merged["counters"].get("configurations_run_as_first_call_of_a_forked_child", 0) < 3:
        out["inconclusive"].append("fewer than 3 configurations ran as the first call of a forked child process")
    if merged["counters"].get("configurations_under_other_warning_filters", 0) < 6:
        out["inconclusive"].append("fewer than 6 configurations ran under warning filters other than the reference run's")
    if merged["counters"].get("mixture_fits_not_converged_in_this_process", 0) < 3:
        out["inconclusive"].append("fewer than 3 compared runs had a seeding mixture that ran out of EM steps")
    if merged["counters"].get("wide_pairs_compared", 0) < 1:
        out["inconclusive"].append("no pair of configurations was compared on a wide problem with the linear-algebra library multi-threaded")
    if compared < (40 if tier == "quick" else 400):
        out["inconclusive"].append("only %d digests compared" % compared)
    return out


def _conf_from_name(name):
    parts = name.split("-")
    try:
        return {"name": name, "nproc": int(parts[0][2:]), "mp": parts[1] == "mp",
                "start": ([p_ for p_ in parts if p_ in ("spawn", "forkserver")] or [None])[0],
                "warnings": "ignore" if "wignore" in parts else ("always" if "walways" in parts else None),
                "in_child": "child" in parts}
    except Exception:
        return {"name": name, "nproc": 1, "mp": False}
