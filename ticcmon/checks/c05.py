"""C05 - reported log-likelihoods are exact Gaussian log-densities."""
import math

import numpy as np

from ticcmon import e2e_check
from ticcmon.checks import common, e2e_common as ec
from ticcmon.oracles import gauss

LEVEL = "exploration"
RULE = ("(i) the likelihood table function and the per-point function on synthetic models: NW in {1,2,5,12,40,100,200}, Theta = "
        "scale*(AA^T/NW+0.1I) with log-determinants -3000..+3000, block-Toeplitz Theta from the real optimiser, points up to 50 sigma away, "
        "C/F/strided/read-only data, interpreted + JIT + JIT/boundscheck; (ii,iii) the table at every labelling step and the result fields of "
        "traced runs; non-trivial = distinct synthetic model with NW>=2 or traced run with >=1 table checked; distinct by hash")
ASSUMPTIONS = ["tolerance = 64 eps (|logdet| + NW log 2pi + (NW+2) sum|d||Theta||d| + NW cond(Theta)); matrices with cond>1e13 are skipped",
               "mpmath (80 digits) arbitrates a sample of entries"]
SHARD_TIMEOUT = {"quick": 300, "thorough": 3400}
MIX = {"single:small": 3, "single:general": 2, "single:hostile": 2, "joint:joint": 1}
PROPS = ("C05",)
SIZES = [(1, 1), (2, 1), (5, 5), (12, 3), (40, 10), (100, 10), (200, 10)]
SCALES = [1e-12, 1e-7, 1e-3, 1.0, 1e3, 1e7, 1e12]
LAYOUTS = ["C", "F", "strided", "readonly"]


def plan(tier, seed):
    q = tier == "quick"
    specs = ec.plan_e2e(seed, 5, MIX, 60 if q else 600, nwcap=12 if q else 24)
    if not q:
        specs += ec.fixture_specs()
    for p, n in enumerate(common.split_counts(280 if q else 4600, 10 if q else 20)):
        specs.append(dict(name="synth-%d" % p, mode="interp", what="synth", n=n, seed=[seed, 55, p]))
    specs.append(dict(name="synth-jit", mode="jit", what="synth", n=40 if q else 300, seed=[seed, 56, 0], jit=True))
    specs.append(dict(name="synth-jitbc", mode="jit_bc", what="synth", n=30 if q else 200, seed=[seed, 57, 0], jit=True))
    # the same work in an interpreter started with -O (assert statements compiled away)
    byname = {sp["name"]: sp for sp in specs}
    if 'synth-0' in byname:
        specs.append(common.under_O(byname['synth-0'], **{'n': 40}))
    return specs


def make_model(d):
    from fast_ticc.containers import model_state as ms, arguments
    rng = np.random.default_rng(d["rng"])
    nw, W = d["nw"], d["W"]
    K, T = d["K"], d["T"]
    args = arguments.UserArguments(0.1, 5, 1.0, 2, 0, K, 1, W, False)
    X = rng.normal(size=(T, nw)) * float(d["spread"])
    offset = np.zeros(nw)
    if d.get("offset"):
        # data and means far from the origin compared with their spread (a formula expanded around 0 cancels here)
        offset = rng.choice([-1.0, 1.0], size=nw) * float(d["offset"]) * float(d["spread"])
        X = X + offset[None, :]
    if d.get("dtype") == "float32":
        X = X.astype(np.float32)
    elif d.get("dtype") == "int64":
        X = np.round(X * 4).astype(np.int64)
    st = ms.ModelState.empty_model(args, X)
    st.point_labels = [i % K for i in range(T)]
    for k, c in enumerate(st.clusters):
        if d["theta"] == "toeplitz" and nw <= 12:
            from fast_ticc import admm
            from ticcmon.oracles import toeplitz as tz
            A = rng.normal(size=(nw, nw))
            S = A @ A.T / nw + 0.2 * np.eye(nw)
            th = tz.full_from_upper(nw, np.asarray(admm.admm_optimize_theta(S, 0.05, W, nw // W).theta)) * d["scale"]
        else:
            A = rng.normal(size=(nw, nw)) / math.sqrt(nw)
            th = (A @ A.T + 0.1 * np.eye(nw)) * d["scale"]
        c.train_inverse = (th + th.T) / 2
        c.stacked_data_mean = rng.normal(size=nw) * (4.0 if d.get("dtype") == "int64" else 1.0) + offset * (4.0 if d.get("dtype") == "int64" else 1.0)
    if d.get("share") and K >= 2:
        # two clusters with byte-identical MRFs but different means (translated regimes), or equal means but different MRFs
        j = 1 + int(rng.integers(0, K - 1))
        if d["share"] == "mrf":
            st.clusters[j].train_inverse = np.array(st.clusters[0].train_inverse, copy=True)
        else:
            st.clusters[j].stacked_data_mean = np.array(st.clusters[0].stacked_data_mean, copy=True)
    lay = d["layout"]
    if lay == "F":
        X = np.asfortranarray(X)
    elif lay == "strided":
        big = np.zeros((T * 2, nw * 2))
        big[::2, ::2] = X
        X = big[::2, ::2]
    elif lay == "readonly":
        X = np.array(X)
        X.flags.writeable = False
    return st, X


def run_synth_case(res, d):
    from fast_ticc import likelihood as lk
    st, X = make_model(d)
    nw, W, K, T = d["nw"], d["W"], d["K"], d["T"]
    mus = [np.array(c.stacked_data_mean, copy=True) for c in st.clusters]
    ths = [np.array(c.train_inverse, copy=True) for c in st.clusters]
    Xc = np.array(X, copy=True).astype(np.float64)
    X_in = np.array(X, copy=True)
    try:
        tab = lk.all_points_all_clusters_log_likelihood(st, X)
    except Exception as e:
        res.violation("likelihood table function raised %s: %s (NW=%d scale=%g layout=%s)" % (type(e).__name__, str(e)[:200], nw, d["scale"], d["layout"]), d)
        return
    res.evaluations += 1
    tab = np.asarray(tab)
    if any(np.linalg.cond(th) > 1e13 for th in ths):
        res.skipped("illconditioned")
        return
    ref = gauss.gauss_table(Xc, mus, ths)
    bound = gauss.table_bound(Xc, mus, ths)
    if tab.shape != ref.shape:
        res.violation("table shape %s, expected %s" % (tab.shape, ref.shape), d)
        return
    if not np.all(np.isfinite(tab)):
        res.violation("table has %d non-finite entries for positive-definite precision matrices (NW=%d, log-det %.1f)" % (
            int((~np.isfinite(tab)).sum()), nw, float(np.linalg.slogdet(ths[0])[1])), d)
        return
    dev = np.abs(tab - ref)
    res.maxi("dev_over_bound_x1000", int(float(np.max(dev / bound)) * 1000))
    res.count("table_entries_checked", int(tab.size))
    res.maxi("abs_logdet", int(abs(float(np.linalg.slogdet(ths[0])[1]))))
    if np.any(dev > bound):
        i, k = np.unravel_index(np.argmax(dev / bound), dev.shape)
        arb = gauss.mp_logpdf(Xc[i], mus[k], ths[k]) if nw <= 40 else None
        res.violation("table[%d,%d]=%.15g but the Gaussian log-density is %.15g (dev %.3g > bound %.3g; mpmath: %r; NW=%d scale=%g)" % (
            i, k, tab[i, k], ref[i, k], dev[i, k], bound[i, k], arb, nw, d["scale"]), d)
    # high-precision arbiter on one entry: validates the oracle itself
    if nw <= 12 and d.get("arb"):
        arb = gauss.mp_logpdf(Xc[0], mus[0], ths[0])
        res.count("mpmath_arbitrations")
        if abs(arb - ref[0, 0]) > bound[0, 0]:
            res.inconclusive.append("oracle disagrees with mpmath: %r vs %r" % (ref[0, 0], arb))
        if abs(arb - tab[0, 0]) > bound[0, 0]:
            res.violation("table[0,0]=%.15g, 80-digit value %.15g (bound %.3g)" % (tab[0, 0], arb, bound[0, 0]), d)
    # the per-point function (uses the caches the table function filled in)
    for (i, k) in ((0, 0), (T - 1, K - 1)):
        try:
            v = lk.point_log_likelihood(X[i], st.clusters[k], W, nw // W)
        except Exception as e:
            res.violation("point_log_likelihood raised %s: %s" % (type(e).__name__, str(e)[:200]), d)
            break
        if not (abs(float(v) - ref[i, k]) <= bound[i, k]):
            res.violation("point_log_likelihood(point %d, cluster %d)=%.15g, log-density %.15g (bound %.3g)" % (i, k, float(v), ref[i, k], bound[i, k]), d)
        res.count("point_calls_checked")
    if not np.array_equal(np.asarray(X), X_in):
        res.violation("likelihood table function modified the data", d)
    if d.get("offset"):
        res.count("cases_with_common_offset")
    if d.get("share") and K >= 2:
        res.count("cases_with_clusters_sharing_" + d["share"])
    if d.get("dtype"):
        res.count("cases_with_non_float64_windows")
    # history: the same state object is given new MRFs (as the next round's optimisation does) and scored again
    if d.get("rescore"):
        rng2 = np.random.default_rng(d["rng"] + [3])
        factor = float(rng2.choice([1e-3, 0.5, 2.0, 1e3]))
        ths2 = []
        for k, c in enumerate(st.clusters):
            A = rng2.normal(size=(nw, nw)) / math.sqrt(nw)
            t2 = (A @ A.T + 0.1 * np.eye(nw)) * d["scale"] * factor
            c.train_inverse = (t2 + t2.T) / 2
            ths2.append(np.array(c.train_inverse, copy=True))
        try:
            tab2 = np.asarray(lk.all_points_all_clusters_log_likelihood(st, X))
            ref2 = gauss.gauss_table(Xc, mus, ths2)
            bound2 = gauss.table_bound(Xc, mus, ths2)
            if all(np.linalg.cond(t) < 1e13 for t in ths2):
                if tab2.shape != ref2.shape or not np.all(np.isfinite(tab2)) or np.any(np.abs(tab2 - ref2) > bound2):
                    res.violation("second scoring of the same state after its MRFs were replaced: table deviates from the Gaussian log-density of the "
                                  "current MRFs by %.3g (stale cached quantity?) NW=%d" % (float(np.nanmax(np.abs(tab2 - ref2))), nw), d)
                res.count("rescored_tables")
        except Exception as e:
            res.violation("second scoring raised %s: %s" % (type(e).__name__, str(e)[:200]), d)
        ths = ths2
    for k, c in enumerate(st.clusters):
        if not np.array_equal(c.train_inverse, ths[k]) or not np.array_equal(c.stacked_data_mean, mus[k]):
            res.violation("likelihood table function modified the model's MRF or mean", d)
    if nw >= 2:
        res.nontriv(common.h(d["rng"], nw, d["scale"], d["layout"], res.spec.get("mode")))
    res.count("layout:" + d["layout"])
    res.count("nw:%d" % nw)


def gen_desc(rng, spec, i):
    jit = bool(spec.get("jit"))
    nw, W = SIZES[int(rng.integers(0, len(SIZES)))]
    if rng.random() < 0.25:
        W = int(rng.integers(1, 4))
        nw = W * int(rng.integers(1, 5))
    scale = SCALES[int(rng.integers(0, len(SCALES)))]
    lay = LAYOUTS[int(rng.integers(0, 2 if jit else len(LAYOUTS)))]
    T = int(rng.integers(1, 25))
    if i % 9 == 4 and nw <= 12:
        T = int(rng.choice([1000, 2048, 4097]))        # many points (block / chunk boundaries of a vectorised or threaded kernel)
    share = {2: "mrf", 5: "mean"}.get(i % 6)
    return dict(what="synth", rng=[int(v) for v in spec["seed"]] + [i], nw=nw, W=W, K=int(rng.integers(2 if share else 1, 5)), T=T, share=share,
                scale=scale, spread=float(rng.choice([0.1, 1.0, 50.0])), layout=lay,
                theta="toeplitz" if rng.random() < 0.25 else "dense", arb=(i % 5 == 0), rescore=(i % 3 == 0),
                offset=(float(10 ** rng.uniform(3, 7)) if i % 4 == 1 else 0.0),
                dtype=(["float32", "int64"][int(rng.integers(0, 2))] if (i % 7 == 3 and not jit) else None))


def run_shard(spec, res):
    res.counters["numba_state"] = str(common.numba_state())
    if spec["what"] in ("e2e", "fixture"):
        ec.run_e2e_shard(spec, res, PROPS, lambda run, I: "t" if I.counts.get("table_entries_checked", 0) else None)
        return
    rng = np.random.default_rng(spec["seed"])
    for i in range(spec["n"]):
        d = gen_desc(rng, spec, i)
        run_synth_case(res, d)
        if i == 0:
            res.sample(d)
    if spec.get("jit"):
        from fast_ticc import likelihood as lk
        if not common.dispatcher_compiled(lk.all_points_all_clusters_log_likelihood_fast):
            res.inconclusive.append("JIT shard but the likelihood kernel is not a compiled dispatcher")


def replay(case, res):
    if case.get("what") == "synth":
        run_synth_case(res, case)
    else:
        e2e_check.replay_case(res, case, PROPS)


def finalize(merged, tier):
    out = {"inconclusive": []}
    q = tier == "quick"
    ec.min_counter(merged, out, "table_entries_checked", 20000 if q else 200000)
    ec.min_counter(merged, out, "point_calls_checked", 300 if q else 3000)
    ec.min_counter(merged, out, "result_ll_entries_checked", 1500 if q else 15000)
    ec.min_counter(merged, out, "mpmath_arbitrations", 5 if q else 50)
    ec.min_counter(merged, out, "rescored_tables", 40 if q else 400)
    ec.min_counter(merged, out, "cases_with_common_offset", 40 if q else 400)
    ec.min_counter(merged, out, "cases_with_clusters_sharing_mrf", 20 if q else 200)
    ec.min_counter(merged, out, "cases_with_non_float64_windows", 15 if q else 150)
    ec.unexpected(merged, out)
    out["max_dev_over_bound"] = merged["counters"].get("max_dev_over_bound_x1000", 0) / 1000.0
    return out
