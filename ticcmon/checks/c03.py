"""C03 - every MRF is finite, symmetric, positive definite; the floor only removes small entries."""
import numpy as np

from ticcmon import e2e_check, history, instrument
from ticcmon.checks import common, e2e_common as ec
from ticcmon.oracles import linalg, stack, toeplitz as tz

LEVEL = "exploration"
RULE = ("(i) optimiser entry point on sample covariances of hostile data: 2..2NW+1 points, per-sensor / uniform scales 1e-12..1e12, constant "
        "sensors, duplicated points, perfectly correlated sensors, the zero matrix; (N,W)<=(4,5); lambda in {0,1e-3,0.11,1,5}; (ii) the "
        "optimisation phase on synthetic states with floors eps in {0,1e-6,1e-3,0.5} (raw optimiser output captured at the task boundary); "
        "(iii) traced hostile end-to-end runs; non-trivial = distinct covariance that is rank deficient or has scale outside [1e-3,1e3], or a "
        "floor case where at least one entry was removed; distinct by hash")
ASSUMPTIONS = ["precondition: the covariance handed to the optimiser is finite symmetric PSD; singleton+unbiased (NaN by definition) is counted "
               "as precondition_not_met", "PD decided exactly for the double matrix (scaled Cholesky, mpmath LDL^T arbiter)"]
SHARD_TIMEOUT = {"quick": 300, "thorough": 3400}
MIX = {"single:hostile": 5, "single:small": 1, "joint:joint": 1}
PROPS = ("C03",)
KINDS = ["sensor_scale", "uniform_scale", "const_sensor", "dup_points", "corr", "zero", "plain"]
LAMS = [0.0, 1e-3, 0.11, 1.0, 5.0]


def plan(tier, seed):
    q = tier == "quick"
    specs = ec.plan_e2e(seed, 3, MIX, 60 if q else 600, nwcap=12 if q else 20)
    if not q:
        specs += ec.fixture_specs()
    for p, n in enumerate(common.split_counts(420 if q else 6000, 12 if q else 24)):
        specs.append(dict(name="entry-%d" % p, mode="interp", what="entry", n=n, seed=[seed, 33, p]))
    for p, n in enumerate(common.split_counts(100 if q else 1200, 5 if q else 12)):
        specs.append(dict(name="phase-%d" % p, mode="interp", what="phase", n=n, seed=[seed, 333, p]))
    # the optimisation phase (with its covariance floor) also in an interpreter started with -O (assert statements compiled away)
    specs.append(dict(name="phase-O", mode="interp", what="phase", n=20 if q else 100, seed=[seed, 333, 97], env={"PYTHONOPTIMIZE": "1"}))
    return specs


def hostile_cov(d):
    rng = np.random.default_rng(d["rng"])
    N, W = d["N"], d["W"]
    nn = N * W
    pts = d["pts"]
    X = rng.normal(size=(pts, nn))
    sc = 10 ** rng.uniform(-6, 6, size=nn)
    kind = d["kind"]
    if kind == "sensor_scale":
        X = X * sc
    elif kind == "uniform_scale":
        X = X * 10 ** rng.uniform(-6, 6)
    elif kind == "const_sensor":
        X[:, 0] = 3.0
        X = X * sc
    elif kind == "dup_points":
        X = np.repeat(X[:2], pts // 2 + 1, axis=0)[:max(pts, 2)] * sc
    elif kind == "corr":
        X = X * sc
        X[:, -1] = X[:, 0]
    elif kind == "zero":
        X = np.repeat(X[:1], max(pts, 1), axis=0)
    S = np.atleast_2d(np.cov(X.T, bias=bool(d["biased"]) or kind == "zero"))
    return S


def gen_desc(rng, seedlist, i):
    N = int(rng.integers(1, 5))
    W = int(rng.integers(1, 6))
    nn = N * W
    kind = KINDS[int(rng.integers(0, len(KINDS)))]
    return dict(rng=[int(v) for v in seedlist] + [i], N=N, W=W, kind=kind, pts=int(rng.integers(2, 2 * nn + 2)),
                biased=bool(rng.integers(0, 2)), lam=LAMS[int(rng.integers(0, len(LAMS)))])


def check_mrf(res, th, d, label):
    """Finite, exactly symmetric, PD, finite log-determinant."""
    if not np.all(np.isfinite(th)):
        res.violation("%s: MRF has non-finite entries (%s)" % (label, _dstr(d)), d)
        return False
    if not linalg.is_symmetric_exact(th):
        res.violation("%s: MRF is not exactly symmetric (%s)" % (label, _dstr(d)), d)
        return False
    if not linalg.is_pd(th, res.counters):
        ev = np.linalg.eigvalsh(th)
        res.violation("%s: MRF is not positive definite: eigenvalues in [%.3g, %.3g] (%s)" % (label, ev.min(), ev.max(), _dstr(d)), d)
        return False
    sign, ld = np.linalg.slogdet(th)
    if not (sign > 0 and np.isfinite(ld)):
        res.violation("%s: log-determinant not finite (%r,%r) (%s)" % (label, sign, ld, _dstr(d)), d)
        return False
    return True


def _dstr(d):
    return "N=%d W=%d kind=%s pts=%d lam=%g" % (d["N"], d["W"], d["kind"], d["pts"], d["lam"])


def run_entry_case(res, d):
    from fast_ticc import admm
    S = hostile_cov(d)
    if not np.all(np.isfinite(S)):
        res.skipped("precondition:non-finite covariance")
        return
    S0 = S.copy()
    nn = d["N"] * d["W"]
    try:
        r = admm.admm_optimize_theta(S, d["lam"], d["W"], d["N"])
    except Exception as e:
        res.violation("optimiser raised %s: %s on a finite PSD covariance (%s, max|S|=%.3g)" % (type(e).__name__, e, _dstr(d), float(np.abs(S0).max())), d)
        return
    res.evaluations += 1
    theta = np.asarray(r.theta, dtype=np.float64)
    if theta.shape != (nn * (nn + 1) // 2,):
        res.violation("theta has shape %s" % (theta.shape,), d)
        return
    th = tz.full_from_upper(nn, theta)
    check_mrf(res, th, d, "entry point")
    res.count("kind:" + d["kind"])
    mx = float(np.abs(S0).max())
    rank = int(np.linalg.matrix_rank(S0)) if mx > 0 else 0
    if rank < nn or mx > 1e3 or mx < 1e-3:
        res.nontriv(common.h(S0, d["lam"]))
    res.maxi("log10_scale", int(np.log10(mx)) if mx > 0 else -999)


def run_phase_case(res, d):
    """The optimisation phase on a synthetic state: floor rule + cluster bookkeeping."""
    from fast_ticc.containers import model_state as ms, arguments
    from fast_ticc import graphical_lasso as gl
    rng = np.random.default_rng(d["rng"] + [7])
    N, W, K = d["N"], d["W"], 3
    nn = N * W
    eps = d["eps"]
    args = arguments.UserArguments(sparsity_weight=d["lam"], iteration_limit=5, label_switching_cost=1.0, min_cluster_size=2,
                                   min_meaningful_covariance=eps, num_clusters=K, num_processors=1, window_size=W,
                                   biased_covariance=True)
    T = 12
    data = rng.normal(size=(T, nn))
    st = ms.ModelState.empty_model(args, data)
    st.point_labels = [i % K for i in range(T)]
    covs = []
    mode = d.get("eps_mode", "fixed")
    for k, c in enumerate(st.clusters):
        dk = dict(d)
        dk["rng"] = d["rng"] + [k]
        dk["kind"] = d["kind"] if k else "plain"
        S = hostile_cov(dk)
        if mode == "fixed" and eps > 0:
            S = S / max(1e-300, float(np.abs(S).max())) * float(10 ** rng.uniform(-1, 1)) if np.abs(S).max() > 0 else S
        if mode == "tiny":
            # the high-variance end of the quantifier: variances ~1e12, precision entries ~1e-12 and far smaller off-diagonals
            S = S / max(1e-300, float(np.abs(S).max())) * 1e12 if np.abs(S).max() > 0 else S
        c.empirical_covariance = S
        c.stacked_data_mean = np.zeros(nn)
        covs.append(S.copy())
    if mode != "fixed":
        # adaptive floor: look at what the optimiser produces for cluster 0 and put the floor exactly on / just above / between
        # the magnitudes that occur, whatever their scale
        from fast_ticc import admm
        try:
            raw0 = np.abs(np.asarray(admm.admm_optimize_theta(covs[0].copy(), d["lam"], W, N).theta, dtype=np.float64))
        except Exception:
            res.skipped("adaptive floor: optimiser raised")
            return
        nz = np.sort(raw0[raw0 > 0])
        if nz.size == 0:
            res.skipped("adaptive floor: no non-zero entry")
            return
        if mode == "exact":
            eps = float(nz[int(rng.integers(0, nz.size))])          # an entry of magnitude exactly eps must be kept
        elif mode in ("above_min", "tiny"):
            eps = float(nz[0] * 1.5)                                 # removes only the smallest entries
        else:
            j = int(rng.integers(0, max(1, nz.size - 1)))
            eps = float(np.sqrt(nz[j] * nz[min(j + 1, nz.size - 1)]))
        args.min_meaningful_covariance = eps
        d = dict(d)
        d["eps"] = eps
        res.count("adaptive_floor:" + mode)
        res.maxi("neg_log10_smallest_floor", int(-np.log10(eps)) if eps > 0 else 0)
    raws = []

    class Pool(history.InlinePool):
        def apply_async(self, func, args=(), kwds=None, callback=None, error_callback=None):
            r = super().apply_async(func, args, kwds)
            raws.append(np.array(r.value.theta, copy=True))
            return r
    try:
        out = gl.optimize_markov_random_fields(st, data, Pool())
    except np.linalg.LinAlgError as e:
        if eps > 0:
            # a floor large enough to make the filtered matrix singular cannot yield a covariance: the phase raises,
            # which is a failure surfacing as an exception, not a returned entry that breaks the floor rule
            res.skipped("floor made the matrix singular")
            return
        res.violation("optimisation phase raised LinAlgError: %s with no floor requested (%s)" % (e, _dstr(d)), d)
        return
    except Exception as e:
        res.violation("optimisation phase raised %s: %s (%s eps=%g)" % (type(e).__name__, e, _dstr(d), eps), d)
        return
    res.evaluations += 1
    if len(raws) != K or len(out.clusters) != K:
        res.violation("optimisation phase produced %d clusters from %d tasks (K=%d)" % (len(out.clusters), len(raws), K), d)
        return
    removed = 0
    for k, c in enumerate(out.clusters):
        th = np.atleast_2d(np.asarray(c.train_inverse, dtype=np.float64))
        raw = tz.full_from_upper(nn, np.asarray(raws[k], dtype=np.float64))
        if th.shape != raw.shape:
            res.violation("cluster %d MRF has shape %s" % (k, th.shape), d)
            return
        if eps > 0:
            small = (np.abs(th) > 0) & (np.abs(th) < eps)
            if small.any():
                res.violation("cluster %d: %d entries with magnitude strictly between 0 and the floor %g (e.g. %.3g)" % (
                    k, int(small.sum()), eps, float(th[small][0])), d)
            keep = np.abs(raw) >= eps
            if not np.array_equal(stack.bits(th[keep]), stack.bits(raw[keep])):
                res.violation("cluster %d: an entry of magnitude >= the floor %g is not exactly what the optimiser produced" % (k, eps), d)
            removed += int((~keep & (raw != 0)).sum())
            res.count("floor_checks")
        else:
            if not np.array_equal(stack.bits(th), stack.bits(raw)):
                res.violation("cluster %d: MRF differs from the optimiser output although no floor was requested" % k, d)
            if check_mrf(res, th, d, "phase output cluster %d" % k):
                ld = c.log_determinant
                ref = float(np.linalg.slogdet(th)[1])
                if ld is None or not np.isfinite(ld) or abs(float(ld) - ref) > 1e-9 * max(1.0, abs(ref)):
                    res.violation("cluster %d: stored log-determinant %r, slogdet gives %r" % (k, ld, ref), d)
                cc = c.computed_covariance
                if cc is None or not np.all(np.isfinite(cc)):
                    res.violation("cluster %d: computed covariance missing or non-finite" % k, d)
            res.count("phase_mrfs_checked")
    if eps > 0 and removed:
        res.count("floor_cases_with_removed_entries")
        res.nontriv(common.h(d["rng"], eps))
    if eps > 0:
        # history: the very same covariances are optimised again with no floor; nothing of the floored run may show
        args.min_meaningful_covariance = 0
        raws2 = list(raws)
        del raws[:]
        try:
            out2 = gl.optimize_markov_random_fields(st, data, Pool())
            for k, c in enumerate(out2.clusters):
                th2 = np.atleast_2d(np.asarray(c.train_inverse, dtype=np.float64))
                raw2 = tz.full_from_upper(nn, np.asarray(raws[k], dtype=np.float64)) if k < len(raws) else None
                ref2 = tz.full_from_upper(nn, np.asarray(raws2[k], dtype=np.float64))
                if raw2 is None or th2.shape != ref2.shape or not np.array_equal(stack.bits(th2), stack.bits(ref2)):
                    res.violation("cluster %d: re-optimising the same covariance with no floor (after a run with floor %g) does not return the "
                                  "optimiser's output: %d entries differ" % (k, eps, int((th2 != ref2).sum()) if th2.shape == ref2.shape else -1), d)
                    break
            res.count("refits_without_floor_after_floored_run")
        except np.linalg.LinAlgError:
            res.skipped("refit without floor raised LinAlgError")
        args.min_meaningful_covariance = eps
    after = instrument.snap_model(st)
    for k in range(K):
        if not instrument._arr_equal(after["arrays"][k]["empirical_covariance"], covs[k]):
            res.violation("optimisation phase modified the covariance of its input state", d)


def run_shard(spec, res):
    if spec["what"] in ("e2e", "fixture"):
        ec.run_e2e_shard(spec, res, PROPS, lambda run, I: "h" if I.counts.get("mrfs_checked", 0) else None)
        return
    rng = np.random.default_rng(spec["seed"])
    for i in range(spec["n"]):
        d = gen_desc(rng, spec["seed"], i)
        if spec["what"] == "entry":
            d["what"] = "entry"
            run_entry_case(res, d)
        else:
            d["what"] = "phase"
            d["eps"] = [0.0, 1e-6, 1e-3, 0.5, 0.0, 0.05, 1.0, 1.0, 1.0, 1.0][i % 10]
            d["eps_mode"] = ["fixed"] * 6 + ["exact", "above_min", "between", "tiny"]
            d["eps_mode"] = d["eps_mode"][i % 10]
            d["N"], d["W"] = min(d["N"], 3), min(d["W"], 3)
            run_phase_case(res, d)
        if i == 0:
            res.sample(d)


def replay(case, res):
    if case.get("what") == "entry":
        run_entry_case(res, case)
    elif case.get("what") == "phase":
        run_phase_case(res, case)
    else:
        e2e_check.replay_case(res, case, PROPS)


def finalize(merged, tier):
    out = {"inconclusive": []}
    q = tier == "quick"
    ec.min_counter(merged, out, "mrfs_checked", 150 if q else 1500)
    ec.min_counter(merged, out, "phase_mrfs_checked", 30 if q else 400)
    ec.min_counter(merged, out, "floor_cases_with_removed_entries", 10 if q else 100)
    ec.min_counter(merged, out, "refits_without_floor_after_floored_run", 20 if q else 200)
    for mode in ("exact", "above_min", "between", "tiny"):
        ec.min_counter(merged, out, "adaptive_floor:" + mode, 4 if q else 40)
    ec.min_counter(merged, out, "result_floats_checked", 1000 if q else 10000)
    ec.unexpected(merged, out)
    return out
