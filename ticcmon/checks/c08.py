"""C08 - repopulation conserves points, never starves a donor, honours donor order, keeps its input."""
import itertools
import random

import numpy as np

from ticcmon import e2e_check, instrument
from ticcmon.checks import common, e2e_common as ec
from ticcmon.oracles import repop

LEVEL = "exploration"
RULE = ("size vectors: complete grid K<=4 (thorough K<=5), sizes 0..3m+2, m in {1,2,3}, each with rotating strict orderings / tie patterns of "
        "three spread values and a rotating seed of `random`; random larger states (K<=12, sizes<=400, m<=40); output fed back as input for 3 "
        "consecutive calls; non-trivial = distinct (sizes, m, spread pattern) with at least one refill or a donor-shortage error")
ASSUMPTIONS = ["reference: order-free sequential model (capacity floor(s/m)-1 for s>=2m); which points are drawn is unconstrained",
               "spread = Frobenius norm of computed_covariance; ties leave donor order unconstrained"]
SHARD_TIMEOUT = {"quick": 300, "thorough": 3000}


E2E_MIX = {"single:repop": 5, "single:small": 2, "single:empty_final": 2, "joint:repop": 1}


def plan(tier, seed):
    specs = ec.plan_e2e(seed, 808, E2E_MIX, 60 if tier == "quick" else 800, nwcap=8 if tier == "quick" else 16)
    parts = 14
    Kmax = 4 if tier == "quick" else 5
    for p in range(parts):
        specs.append(dict(name="grid-%d" % p, mode="interp", what="grid", Kmax=Kmax, part=p, parts=parts, seed=[seed, 8, p],
                          stride=1 if tier == "thorough" else 1))
    nrand = 2500 if tier == "quick" else 40000
    for p in range(2):
        specs.append(dict(name="random-%d" % p, mode="interp", what="random", n=nrand // 2, seed=[seed, 88, p]))
    # one cluster to refill and two eligible donors with close covariance spreads (forced history, then natural rounds)
    specs.append(dict(name="e2e-donorrank", mode="interp", what="e2e", mix={"large:donorrank": 1.0}, n=12 if tier == "quick" else 48,
                      seed=[seed, 808, 4321], nwcap=8))
    # the same work in an interpreter started with -O (assert statements compiled away)
    byname = {sp["name"]: sp for sp in specs}
    if 'random-0' in byname:
        specs.append(common.under_O(byname['random-0'], **{}))
    return specs


def build_state(sizes, m, spreads, arrangement_rng):
    from fast_ticc.containers import model_state as ms, arguments
    K = len(sizes)
    labels = [k for k, s in enumerate(sizes) for _ in range(s)]
    arrangement_rng.shuffle(labels)
    labels = [int(v) for v in labels]
    args = arguments.UserArguments(sparsity_weight=0.1, iteration_limit=5, label_switching_cost=1.0, min_cluster_size=m,
                                   min_meaningful_covariance=0, num_clusters=K, num_processors=1, window_size=1,
                                   biased_covariance=False)
    clusters = [ms.ClusterParameters.empty_cluster() for _ in range(K)]
    st = ms.ModelState(arguments=args, clusters=clusters)
    st.point_labels = labels
    for k, c in enumerate(st.clusters):
        c.computed_covariance = np.eye(2) * float(spreads[k])
        c.empirical_covariance = np.eye(2) * (k + 1.0)
        c.stacked_data_mean = np.array([float(k), 0.0])
        c.train_inverse = np.eye(2) / (k + 1.0)
    return st


def one_call(res, cm, st, m, spreads, case, depth=0):
    """Call the real function on `st`, compare with the model.  Returns the output state or None."""
    K = len(st.clusters)
    before = instrument.snap_model(st)
    labels_in = list(st.point_labels)
    raised = None
    out = None
    try:
        out = cm.repopulate_empty_clusters(st)
    except Exception as e:  # noqa: the model decides whether raising is right
        raised = e
    res.evaluations += 1
    after = instrument.snap_model(st)
    d = instrument.diff_snap(before, after, fields=("labels", "members", "stacked_data_mean", "empirical_covariance",
                                                    "train_inverse", "computed_covariance", "args"))
    if d:
        res.violation("repopulation modified the caller's state: %s (sizes %s, m=%d)" % (d[:4], case.get("sizes"), m), case)
    labels_out = None if out is None else list(out.point_labels)
    sp = [float(np.linalg.norm(np.eye(2) * s)) for s in spreads]
    issues = repop.check_repopulation(labels_in, labels_out if labels_out is not None else [], K, m, sp, raised)
    for msg in issues[:3]:
        res.violation("%s (sizes %s, m=%d, spreads %s, call %d)" % (msg, case.get("sizes"), m, list(spreads), depth), case)
    if out is not None:
        pi = instrument.partition_issues(out)
        if pi:
            res.violation("output state inconsistent: %s" % pi[0], case)
        if out.arguments.min_cluster_size != m or out.arguments.num_clusters != K:
            res.violation("output state carries different arguments", case)
    sizes = [labels_in.count(k) for k in range(K)]
    R = repop.needs_refill(sizes)
    if raised is not None:
        res.count("raised")
    if R:
        res.count("calls_with_recipients")
        if raised is None:
            res.count("refills", len(R))
            caps = [repop.capacity(s, m) if k not in R else 0 for k, s in enumerate(sizes)]
            if sum(1 for c in caps if c > 0) >= 2:
                res.count("calls_with_donor_choice")
            if any(c >= 2 for c in caps) and len(R) >= 2:
                res.count("calls_where_a_donor_can_serve_twice")
    return out if not issues else None


def run_case(res, cm, case):
    sizes, m, spreads = case["sizes"], case["m"], case["spreads"]
    if sum(sizes) == 0:
        return
    random.seed(case["pyseed"])
    arr = np.random.default_rng(case["arr"])
    st = build_state(sizes, m, spreads, arr)
    out = one_call(res, cm, st, m, spreads, case)
    R = repop.needs_refill(sizes)
    if R:
        res.nontriv(common.h(sizes, m, spreads))
    # repeated application, as consecutive rounds would do (new spreads each round)
    depth = 1
    while out is not None and depth < case.get("repeat", 1):
        sp2 = [spreads[(k + depth) % len(spreads)] for k in range(len(spreads))]
        for k, c in enumerate(out.clusters):
            c.computed_covariance = np.eye(2) * float(sp2[k])
        out = one_call(res, cm, out, m, sp2, case, depth)
        depth += 1


SPREAD_VALUES = (1.0, 2.0, 3.0)


def run_grid(spec, res):
    from fast_ticc import cluster_maintenance as cm
    idx = 0
    first = None
    for m in (1, 2, 3):
        for K in range(2, spec["Kmax"] + 1):
            patterns = list(itertools.product(SPREAD_VALUES, repeat=K))
            for sizes in itertools.product(range(0, 3 * m + 3), repeat=K):
                idx += 1
                if idx % spec["parts"] != spec["part"]:
                    continue
                spreads = patterns[(idx // spec["parts"]) % len(patterns)]
                case = dict(what="grid", sizes=list(sizes), m=m, spreads=list(spreads), pyseed=idx % 20, arr=[idx, 5], repeat=1)
                run_case(res, cm, case)
                if first is None and sum(sizes) > 0:
                    first = case
    res.counters["max_grid_index"] = idx
    res.sample(first)


def run_random(spec, res):
    from fast_ticc import cluster_maintenance as cm
    rng = np.random.default_rng(spec["seed"])
    for i in range(spec["n"]):
        K = int(rng.integers(2, 13))
        m = int(rng.integers(1, 41))
        if i % 25 == 7:
            K = int(rng.integers(13, 40))                 # many clusters
        big = (i % 25 == 13)
        if big:
            m = int(rng.integers(200, 900))               # hundreds of points per refill, thousands per cluster
        sizes = []
        for k in range(K):
            u = rng.random()
            if u < 0.25:
                sizes.append(int(rng.integers(0, 2)))
            elif u < 0.5:
                sizes.append(int(rng.integers(2, 2 * m + 1)))
            else:
                sizes.append(int(rng.integers(2 * m, (6 * m if big else min(400, 6 * m)) + 1)))
        spreads = [float(v) for v in rng.choice([0.5, 1.0, 1.0, 2.0, 3.0, 7.5], size=K)]
        if i % 3 == 0:
            # spreads that differ only in their fractional part (norms 2.x or 0.x): an integer-typed ranking key cannot order them
            base = float(rng.choice([0.0, 2.0, 5.0]))
            spreads = [float((base + u) / np.sqrt(2.0)) for u in rng.uniform(0.05, 0.95, size=K)]
        # no NaN spreads: a NaN computed covariance has no place in an ordering (sorted() with NaN keys is
        # arbitrary), so "decreasing covariance spread" is undefined for it - outside the quantifier.
        if i % 5 == 2:
            spreads = [v * 1e-7 for v in spreads]         # data in very small units: spreads of order 1e-7 are still strictly ordered
        case = dict(what="random", sizes=sizes, m=m, spreads=spreads, pyseed=int(rng.integers(0, 20)),
                    arr=[int(v) for v in spec["seed"]] + [i], repeat=3)
        run_case(res, cm, case)
        if i == 0:
            res.sample(case)


def run_shard(spec, res):
    if spec["what"] in ("e2e", "fixture"):
        # every repopulation call the real main loop makes (states that went through relabelling, copies, several rounds)
        ec.run_e2e_shard(spec, res, ("C08",), lambda run, I: "r" if I.counts.get("repop_events", 0) else None, coverage_props=())
        return
    if spec["what"] == "grid":
        run_grid(spec, res)
    else:
        run_random(spec, res)


def replay(case, res):
    if case.get("front"):
        e2e_check.replay_case(res, case, ("C08",))
        return
    from fast_ticc import cluster_maintenance as cm
    run_case(res, cm, case)


def finalize(merged, tier):
    c = merged["counters"]
    out = {"inconclusive": []}
    for key, least in (("repop_events", 15 if tier == "quick" else 200), ("refills", 1000), ("raised", 100), ("calls_with_donor_choice", 500), ("calls_where_a_donor_can_serve_twice", 100)):
        if c.get(key, 0) < least:
            out["inconclusive"].append("monitor counter %s=%d below %d" % (key, c.get(key, 0), least))
    out["exhaustive_subspace"] = "all size vectors K<=%d, sizes 0..3m+2, m in {1,2,3} (spread patterns and seeds rotate)" % (4 if tier == "quick" else 5)
    return out
