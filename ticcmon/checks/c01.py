"""C01 - the labelling step returns a global minimum and reports its exact cost."""
import itertools
import numbers

import numpy as np

from ticcmon.checks import common
from ticcmon.oracles import labelling as lab

LEVEL = "exploration"
RULE = ("random cost tables from 10 value classes x beta forms (scalar int/float/NumPy, vectors with zeros) x memory layouts "
        "x execution modes, plus the complete grid T<=3,K<=3, entries and betas in {0,1,2}; a case is non-trivial when the "
        "oracle's optimal path switches label at least once or two different sequences tie for the optimum; distinct by "
        "hash of (table bytes, beta bytes, mode)")
ASSUMPTIONS = ["oracle: brute force over all K^T sequences (K^T<=60000) else an independent forward DP",
               "tolerance 4(T+2)eps(sum_i max_k|C_ik| + sum beta); 0 for integer-valued tables"]
SHARD_TIMEOUT = {"quick": 300, "thorough": 3000}

CLASSES = ["gauss", "smallint", "allequal", "mixedmag", "negative", "stayjump_tie", "T1", "K1", "dyadic", "huge_spread", "tiny_units",
           "int_table", "f32_table", "flat_stretches"]   # + "large K" (K in {257..1100}) drawn separately
BETA_FORMS = ["float", "int", "np.float64", "zero", "vector_rand", "vector_zeros", "vector_onezero", "vector_big", "big_scalar",
              "np.float32", "np.int64", "vector_int", "vector_f32"]
LAYOUTS = ["C", "F", "strided", "readonly"]
JIT_COMBOS = [("C", "float"), ("C", "float"), ("C", "vector_rand"), ("F", "float"), ("strided", "vector_onezero"), ("readonly", "int"),
              ("C", "zero"), ("C", "big_scalar"), ("C", "vector_zeros"), ("C", "vector_big"), ("C", "np.float64")]


def plan(tier, seed):
    specs = []
    if tier == "quick":
        for i, n in enumerate(common.split_counts(3600, 9)):
            specs.append(dict(name="rand-interp-%d" % i, mode="interp", kind="random", seed=[seed, 1, i], n=n, maxT=300, maxK=8))
        specs.append(dict(name="rand-jit", mode="jit", kind="random", seed=[seed, 2, 0], n=1500, maxT=300, maxK=8, jit=True, huge=True))
        specs.append(dict(name="rand-jitbc", mode="jit_bc", kind="random", seed=[seed, 3, 0], n=1000, maxT=300, maxK=8, jit=True))
        for i in range(4):
            specs.append(dict(name="grid-%d" % i, mode="interp", kind="grid", part=i, parts=4))
        specs.append(dict(name="grid-jit", mode="jit", kind="grid", part=0, parts=6, jit=True))
        specs.append(dict(name="predict", mode="interp", kind="predict", n=150, seed=[seed, 111, 0]))
    else:
        for i, n in enumerate(common.split_counts(48000, 10)):
            specs.append(dict(name="rand-interp-%d" % i, mode="interp", kind="random", seed=[seed, 1, i], n=n, maxT=3000, maxK=40))
        for i in range(3):
            specs.append(dict(name="rand-jit-%d" % i, mode="jit", kind="random", seed=[seed, 2, i], n=6000, maxT=3000, maxK=40, jit=True, huge=(i < 2)))
        for i in range(2):
            specs.append(dict(name="rand-jitbc-%d" % i, mode="jit_bc", kind="random", seed=[seed, 3, i], n=4000, maxT=3000, maxK=40, jit=True))
        for i in range(6):
            specs.append(dict(name="grid-%d" % i, mode="interp", kind="grid", part=i, parts=6))
        for i in range(2):
            specs.append(dict(name="grid-jit-%d" % i, mode="jit", kind="grid", part=i, parts=2, jit=True))
        for i in range(4):
            specs.append(dict(name="predict-%d" % i, mode="interp" if i < 3 else "jit", kind="predict", n=500, seed=[seed, 111, i]))
    # the same work in an interpreter started with -O (assert statements compiled away)
    byname = {sp["name"]: sp for sp in specs}
    if 'rand-interp-0' in byname:
        specs.append(common.under_O(byname['rand-interp-0'], **{'n': 300}))
    if 'predict' in byname:
        specs.append(common.under_O(byname['predict'], **{'n': 40}))
    if 'predict-0' in byname:
        specs.append(common.under_O(byname['predict-0'], **{'n': 100}))
    return specs


def gen_table(rng, cls, T, K):
    if cls == "gauss":
        return rng.normal(size=(T, K)) * float(10 ** rng.uniform(-2, 3))
    if cls == "smallint":
        return rng.integers(0, 4, size=(T, K)).astype(np.float64)
    if cls == "allequal":
        return np.full((T, K), float(rng.integers(-3, 4)))
    if cls == "mixedmag":
        return rng.normal(size=(T, K)) * 10 ** rng.uniform(-5, 8, size=(T, K))
    if cls == "negative":
        return -np.abs(rng.normal(size=(T, K))) * 50 - 10
    if cls == "stayjump_tie":
        # staying costs exactly as much as jumping (with integer beta b): many exact ties
        C = rng.integers(0, 3, size=(T, K)).astype(np.float64)
        return C * 2.0
    if cls == "dyadic":
        return rng.integers(-8, 9, size=(T, K)) / 4.0
    if cls == "huge_spread":
        C = rng.normal(size=(T, K))
        C[rng.random((T, K)) < 0.2] *= 1e12
        return C
    if cls == "weak_evidence":
        # long regimes that differ only slightly per point: where to switch is decided by sums over thousands of points
        C = rng.normal(size=(T, K)) * 0.3
        t = 0
        k = 0
        while t < T:
            L = int(rng.integers(800, 3000))
            C[t:t + L, k] -= 0.15
            t += L
            k = (k + 1) % K
        return C
    if cls == "flat_stretches":
        # stretches of identical consecutive rows (a recording idling at one level), 1..120 rows long
        C = np.empty((T, K))
        t = 0
        while t < T:
            L = int(rng.choice([1, 2, 5, 31, 32, 33, 40, 64, 120]))
            C[t:t + L] = rng.integers(0, 4, size=K).astype(np.float64)
            t += L
        return C
    if cls == "tiny_units":
        return rng.normal(size=(T, K)) * float(2.0 ** -int(rng.integers(35, 70)))       # the whole problem far below 1e-9
    if cls == "int_table":
        return rng.integers(-6, 7, size=(T, K)).astype([np.int64, np.int32][int(rng.integers(0, 2))])
    if cls == "f32_table":
        return (rng.normal(size=(T, K)) * 8 + float(rng.choice([0.0, 1e4]))).astype(np.float32)
    raise ValueError(cls)


def gen_beta(rng, form, T, C, exact):
    spread = float(np.max(C) - np.min(C)) if C.size else 1.0
    if C.size and 0 < float(np.max(np.abs(C))) < 1e-6 and form not in ("zero", "vector_zeros"):
        # tiny units: the switching cost lives on the same scale as the table
        unit = float(np.max(np.abs(C)))
        if form.startswith("vector"):
            v = rng.uniform(0, 1.5, size=T) * unit
            v[rng.random(T) < 0.2] = 0.0
            return v
        return float(rng.uniform(0, 1.5) * unit)
    if C.shape[0] > 4000 and form in ("float", "np.float64", "big_scalar") and float(np.std(C)) < 0.5 and not exact:
        return float(rng.choice([20.0, 60.0, 150.0]))                                   # large penalty against weak per-point evidence
    if np.asarray(C).dtype.kind in "iu" and form in ("float", "np.float64") and not exact:
        return float(rng.integers(0, 8)) / 4.0 + 0.25                               # fractional beta on an integer table
    if form == "float":
        return float(rng.integers(0, 5)) if exact else float(rng.uniform(0, 3) * (1 + spread / 4))
    if form == "int":
        return int(rng.integers(0, 5))
    if form == "np.float64":
        return np.float64(rng.integers(0, 5)) if exact else np.float64(rng.uniform(0, 3))
    if form == "np.float32":
        return np.float32(rng.integers(0, 5))
    if form == "np.int64":
        return np.int64(rng.integers(0, 5))
    if form == "zero":
        return 0.0
    if form == "big_scalar":
        return float(2 * spread + 1)
    if form == "vector_rand":
        v = rng.integers(0, 4, size=T).astype(np.float64) if exact else rng.uniform(0, 2 + spread / 3, size=T)
        v[rng.random(T) < 0.2] = 0.0
        return v
    if form == "vector_zeros":
        return np.zeros(T)
    if form == "vector_onezero":
        v = np.full(T, 2.0 if exact else float(rng.uniform(0.5, 3)))
        v[int(rng.integers(0, T))] = 0.0
        return v
    if form == "vector_big":
        return np.full(T, float(2 * spread + 1))
    if form == "vector_int":
        return rng.integers(0, 4, size=T)
    if form == "vector_f32":
        return rng.integers(0, 4, size=T).astype(np.float32)
    raise ValueError(form)


def apply_layout(C, layout):
    if layout == "C":
        return np.ascontiguousarray(C)
    if layout == "F":
        return np.asfortranarray(C)
    if layout == "strided":
        big = np.zeros((C.shape[0] * 2, C.shape[1] * 3))
        big[::2, ::3] = C
        return big[::2, ::3]
    if layout == "readonly":
        c = np.array(C)
        c.flags.writeable = False
        return c
    raise ValueError(layout)


def check_case(res, kernel, C, beta, case, exact):
    """Run the kernel on one case and compare with the oracles.  Returns True if non-trivial."""
    T, K = C.shape
    c_before = np.array(C, copy=True).astype(np.float64)
    try:
        out = kernel(label_assignment_cost=C, label_switching_cost=beta)
        labels, cost = out
    except Exception as e:  # inside the quantifier: an exception is a failure to deliver
        res.violation("labelling step raised %s: %s (T=%d K=%d beta=%r)" % (type(e).__name__, e, T, K, type(beta).__name__), case)
        return False
    res.evaluations += 1
    labels = list(labels)
    if len(labels) != T:
        res.violation("returned %d labels for %d points" % (len(labels), T), case)
        return False
    bad = [l for l in labels if not (isinstance(l, numbers.Integral) and 0 <= l < K)]
    if bad:
        res.violation("labels not integers in [0,%d): %r" % (K, bad[:5]), case)
        return False
    labels = [int(l) for l in labels]
    tol = 0.0 if exact else lab.cost_tolerance(C, beta)
    recomputed = lab.path_cost(c_before, beta, labels)
    if not (abs(float(cost) - recomputed) <= tol):
        res.violation("reported cost %r != cost of the returned sequence %r (tol %.3g, T=%d K=%d)" % (float(cost), recomputed, tol, T, K),
                      case, dict(labels=labels))
    opt_b = lab.brute_labelling(c_before, beta)
    opt_f, opt_path = lab.forward_viterbi(c_before, beta)
    if opt_b is not None:
        res.count("brute_forced")
        if abs(opt_b - opt_f) > tol:
            res.inconclusive.append("oracles disagree: brute %r vs forward DP %r" % (opt_b, opt_f))
        opt = opt_b
    else:
        opt = opt_f
    if not (recomputed <= opt + tol):
        res.violation("returned sequence costs %r but the optimum is %r (excess %.6g, tol %.3g, T=%d K=%d, %s)" % (
            recomputed, opt, recomputed - opt, tol, T, K, "brute force" if opt_b is not None else "forward DP"),
            case, dict(labels=labels, optimal_path=opt_path))
    if recomputed < opt - tol:
        res.inconclusive.append("returned sequence cheaper than the oracle optimum: %r < %r" % (recomputed, opt))
    return lab.switches(opt_path) >= 1


def run_predict(spec, res):
    """The labelling step as the algorithm drives it (model in, relabelled model out), re-used for a sweep of switching costs on
    ONE model / argument bundle: every call must be optimal for the cost in force at that call."""
    from fast_ticc import cluster_label_assignment as cla
    from ticcmon import instrument
    from ticcmon.checks import c05
    instrument.install_label_monitor()
    rng = np.random.default_rng(spec["seed"])
    for i in range(spec["n"]):
        nw, W = [(1, 1), (2, 1), (4, 2), (6, 3)][int(rng.integers(0, 4))]
        d = dict(rng=[int(v) for v in spec["seed"]] + [i], nw=nw, W=W, K=int(rng.integers(2, 5)), T=int(rng.integers(5, 60)), scale=1.0,
                 spread=float(rng.choice([1.0, 3.0])), layout="C", theta="dense")
        st, X = c05.make_model(d)
        T = d["T"]
        long_weak = (i % 30 == 7)
        if long_weak:
            # thousands of points, two nearly identical clusters, a large switching cost
            T = int(rng.choice([4500, 9000]))
            d = dict(d, nw=1, W=1, K=2, T=T)
            st, _ = c05.make_model(d)
            X = rng.normal(size=(T, 1))
            t0 = 0
            reg = 0
            while t0 < T:
                L = int(rng.integers(900, 2500))
                X[t0:t0 + L] += 0.3 * reg
                t0 += L
                reg = 1 - reg
            for k_, c_ in enumerate(st.clusters):
                c_.train_inverse = np.eye(1)
                c_.stacked_data_mean = np.array([0.3 * k_])
            res.count("long_weak_evidence_sweeps")
        betas = []
        for j in range(3):
            u = rng.random()
            if long_weak:
                betas.append(float(rng.choice([20.0, 50.0, 120.0])))
            elif u < 0.4:
                betas.append(float(rng.choice([0.0, 0.5, 2.0, 10.0, 100.0])))
            elif u < 0.7:
                v = rng.uniform(0, 10, size=T)
                v[rng.random(T) < 0.2] = 0
                betas.append(v)
            else:
                betas.append("edit_in_place")
        vec = None
        for j, b in enumerate(betas):
            if isinstance(b, str):
                if vec is None:
                    vec = rng.uniform(0, 5, size=T)
                    st.arguments.label_switching_cost = vec
                else:
                    vec[:] = rng.uniform(0, 20, size=T)          # the caller edits the vector it handed over earlier
                beta_now = np.array(st.arguments.label_switching_cost, copy=True)
            else:
                st.arguments.label_switching_cost = b
                if isinstance(b, np.ndarray):
                    vec = b
                beta_now = np.array(b, copy=True) if isinstance(b, np.ndarray) else b
            instrument.REC.label_steps.clear()
            case = dict(kind="predict", d=d, call=j)
            try:
                new = cla.predict_cluster_labels(st, X)
            except Exception as e:
                res.violation("predict_cluster_labels raised %s: %s" % (type(e).__name__, str(e)[:120]), case)
                break
            res.evaluations += 1
            if not instrument.REC.label_steps:
                res.count("predict_kernel_call_not_observed")
                continue
            C = np.asarray(instrument.REC.label_steps[-1]["table"], dtype=np.float64)
            labels = [int(v) for v in new.point_labels]
            tol = lab.cost_tolerance(C, beta_now)
            pc = lab.path_cost(C, beta_now, labels)
            opt, _ = lab.forward_viterbi(C, beta_now)
            if abs(float(new.label_assignment_cost) - pc) > tol:
                res.violation("call %d of a switching-cost sweep on one model: reported cost %r is not the cost %r of the returned labels under the "
                              "switching cost in force" % (j, float(new.label_assignment_cost), pc), case)
            elif pc > opt + tol:
                res.violation("call %d of a switching-cost sweep on one model: labels cost %r, optimum for the switching cost in force is %r" % (j, pc, opt), case)
            res.count("predict_calls_checked")
            if j > 0:
                res.nontriv(common.h(d["rng"], j))


def run_shard(spec, res):
    if spec["kind"] == "predict":
        run_predict(spec, res)
        return
    from fast_ticc import cluster_label_assignment as cla
    kernel = cla.assign_point_cluster_labels
    res.counters["numba_state"] = str(common.numba_state())
    if spec["kind"] == "random":
        run_random(spec, res, kernel)
    else:
        run_grid(spec, res, kernel)
    if spec.get("jit"):
        if not common.dispatcher_compiled(kernel):
            res.inconclusive.append("JIT shard but the kernel is not a compiled Numba dispatcher")
        else:
            res.counters["jit_signatures"] = len(kernel.signatures)


def make_random_case(desc):
    rng = np.random.default_rng(desc["rng"])
    cls = desc["cls"]
    T, K = desc["T"], desc["K"]
    C = gen_table(rng, cls, T, K)
    exact = cls in ("smallint", "allequal", "stayjump_tie", "dyadic", "flat_stretches") and desc["beta_form"] not in ("big_scalar", "vector_big")
    if cls == "int_table" and desc["beta_form"] in ("int", "np.int64", "vector_int", "zero", "vector_zeros"):
        exact = True
    beta = gen_beta(rng, desc["beta_form"], T, C, exact)
    C = apply_layout(C, desc["layout"])
    return C, beta, exact


def make_huge_case(desc):
    rng = np.random.default_rng(desc["rng"])
    T, K = int(rng.choice([1_100_000, 1_300_000])), 8
    C = rng.normal(size=(T, K)) * 2.0
    t = 0
    k = 0
    while t < T:
        L = int(rng.integers(2000, 40000))
        C[t:t + L, k] -= 0.4
        t += L
        k = int(rng.integers(0, K))
    return C, float(rng.choice([3.0, 12.0]))


def run_huge(spec, res, kernel):
    """One table of more than 8.4 million cells (compiled kernel only: storage or precision that changes with the size of the table)."""
    desc = dict(kind="huge", rng=[int(x) for x in spec["seed"]] + [4242])
    C, beta = make_huge_case(desc)
    check_case(res, kernel, C, beta, desc, False)
    T = C.shape[0]
    res.count("huge_tables")
    res.nontriv("huge-%d-%s" % (T, spec["mode"]))


def run_random(spec, res, kernel):
    rng = np.random.default_rng(spec["seed"])
    if spec.get("jit") and spec.get("huge"):
        run_huge(spec, res, kernel)
    for i in range(spec["n"]):
        cls = CLASSES[int(rng.integers(0, len(CLASSES)))]
        if spec.get("jit"):
            layout, form = JIT_COMBOS[int(rng.integers(0, len(JIT_COMBOS)))]
            if cls in ("int_table", "f32_table"):
                layout, form = "C", "float"          # one extra compiled signature per table dtype
        else:
            layout = LAYOUTS[int(rng.integers(0, len(LAYOUTS)))]
            form = BETA_FORMS[int(rng.integers(0, len(BETA_FORMS)))]
        u = rng.random()
        if cls == "T1":
            T, K, cls2 = 1, int(rng.integers(1, 6)), "gauss"
        elif cls == "K1":
            T, K, cls2 = int(rng.integers(1, 12)), 1, "gauss"
        elif cls == "flat_stretches":
            T, K, cls2 = int(rng.integers(40, 400)), int(rng.integers(2, 5)), cls
        elif u < 0.034 and not spec.get("jit_bc"):
            # very long tables (size-threshold paths, accumulated rounding)
            T, K, cls2 = int(rng.choice([4097, 10000, 20011])), int(rng.integers(2, 4)), ["gauss", "smallint", "dyadic", "weak_evidence", "weak_evidence"][int(rng.integers(0, 5))]
            res.count("long_tables")
        elif u < 0.06:
            # many clusters: labels beyond 255 / 65535-safe storage of back-pointers
            T, K, cls2 = int(rng.integers(2, 14)), int(rng.choice([257, 300, 700, 1100])), "gauss"
            res.count("large_K_cases")
        elif u < 0.55:
            K = int(rng.integers(2, 5))
            T = int(rng.integers(2, max(3, int(np.log(60000) / np.log(K)) + 1)))
            cls2 = cls
        elif u < 0.9:
            T, K, cls2 = int(rng.integers(5, 60)), int(rng.integers(2, spec["maxK"] + 1)), cls
        else:
            T, K, cls2 = int(rng.integers(60, spec["maxT"] + 1)), int(rng.integers(2, spec["maxK"] + 1)), cls
        desc = dict(kind="random", rng=[int(x) for x in spec["seed"]] + [i], cls=cls2, T=T, K=K, beta_form=form, layout=layout)
        C, beta, exact = make_random_case(desc)
        nt = check_case(res, kernel, C, beta, desc, exact)
        res.count("class:" + cls)
        res.count("beta:" + form)
        res.count("layout:" + layout)
        if nt:
            res.nontriv(common.h(np.asarray(C), np.asarray(beta), spec["mode"]))
        if i < 2:
            res.sample(dict(desc=desc, table=np.asarray(C)[:6], beta=np.asarray(beta)))


def grid_cases():
    """Complete grid: T<=3, K<=3, entries in {0,1,2}; beta scalar in {0,1,2} and all beta vectors over {0,1,2}."""
    for T in (1, 2, 3):
        for K in (1, 2, 3):
            betas = [("s", b) for b in (0, 1, 2)]
            betas += [("v", v + (0,)) for v in itertools.product((0, 1, 2), repeat=T - 1)] if T > 1 else [("v", (1,))]
            for cells in itertools.product((0.0, 1.0, 2.0), repeat=T * K):
                yield T, K, cells, betas


def run_grid(spec, res, kernel):
    idx = 0
    for T, K, cells, betas in grid_cases():
        idx += 1
        if idx % spec["parts"] != spec["part"]:
            continue
        C = np.array(cells).reshape(T, K)
        for kind, b in betas:
            beta = float(b) if kind == "s" else np.array(b, dtype=np.float64)
            desc = dict(kind="grid", T=T, K=K, cells=list(cells), beta=b if kind == "s" else list(b), beta_kind=kind)
            nt = check_case(res, kernel, C, beta, desc, True)
            if nt:
                res.nontriv(common.h(C, np.asarray(beta), spec["mode"]))
    res.counters["grid_tables_seen"] = idx
    res.sample(dict(grid="T<=3,K<=3,cells{0,1,2}", last_table=C, last_beta=np.asarray(beta)))


def replay(case, res):
    if case.get("kind") == "predict":
        run_predict(dict(seed=case["d"]["rng"][:-1], n=case["d"]["rng"][-1] + 1), res)
        return
    from fast_ticc import cluster_label_assignment as cla
    kernel = cla.assign_point_cluster_labels
    if case["kind"] == "random":
        C, beta, exact = make_random_case(case)
    elif case["kind"] == "huge":
        (C, beta), exact = make_huge_case(case), False
    else:
        C = np.array(case["cells"], dtype=np.float64).reshape(case["T"], case["K"])
        beta = float(case["beta"]) if case["beta_kind"] == "s" else np.array(case["beta"], dtype=np.float64)
        exact = True
    check_case(res, kernel, C, beta, case, exact)


def finalize(merged, tier):
    out = {"inconclusive": []}
    c = merged["counters"]
    if c.get("long_tables", 0) < 5:
        out["inconclusive"].append("only %d tables with more than 4096 points" % c.get("long_tables", 0))
    if c.get("large_K_cases", 0) < 20:
        out["inconclusive"].append("only %d cases with more than 256 clusters" % c.get("large_K_cases", 0))
    if c.get("huge_tables", 0) < 1:
        out["inconclusive"].append("no table of more than 8.4 million cells went through the compiled kernel")
    if c.get("long_weak_evidence_sweeps", 0) < 3:
        out["inconclusive"].append("only %d long weak-evidence sweeps through the relabelling function" % c.get("long_weak_evidence_sweeps", 0))
    if c.get("predict_calls_checked", 0) < 300:
        out["inconclusive"].append("only %d relabelling calls of switching-cost sweeps were checked" % c.get("predict_calls_checked", 0))
    if c.get("brute_forced", 0) < 500:
        out["inconclusive"].append("brute-force oracle decided only %d cases" % c.get("brute_forced", 0))
    out["exhaustive_subspace"] = "T<=3,K<=3, entries and betas in {0,1,2}: enumerated completely (interpreted kernel)"
    return out
