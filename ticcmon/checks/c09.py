"""C09 - main loop: bounded, stops only at a fixed point, returns what it scored (trace specification)."""
from ticcmon import e2e_check
from ticcmon.checks import e2e_common as ec

LEVEL = "exploration"
RULE = ("traced runs with iteration_limit in {1,2,3,20,1000}, forced initial labellings that trigger repopulation in later rounds, both "
        "front ends; every run's phase trace is checked offline against the round grammar; non-trivial = completed run with >=2 rounds; "
        "distinct by case hash")
ASSUMPTIONS = ["phases observed at the module-attribute call boundary of the real main loop",
               "per-task optimality certificate only when the worker's exit record says the stopping rule fired"]
SHARD_TIMEOUT = {"quick": 900, "thorough": 3400}
MIX = {"single:small": 3, "single:general": 2, "single:repop": 3, "single:converge": 2, "joint:joint": 1, "single:empty_final": 1}
PROPS = ("C09",)


def plan(tier, seed):
    specs = ec.plan_e2e(seed, 9, MIX, 180 if tier == "quick" else 2000, nwcap=12 if tier == "quick" else 24)
    if tier == "thorough":
        specs += ec.fixture_specs()
    return specs


def nontrivial(run, I):
    return "r" if I.counts.get("rounds", 0) >= 2 else None


def run_shard(spec, res):
    ec.run_e2e_shard(spec, res, PROPS, nontrivial)


def replay(case, res):
    e2e_check.replay_case(res, case, PROPS)


def finalize(merged, tier):
    out = {"inconclusive": []}
    q = tier == "quick"
    ec.min_counter(merged, out, "runs_completed", 90 if q else 1000)
    ec.min_counter(merged, out, "early_stops", 20 if q else 200)
    ec.min_counter(merged, out, "limit_stops", 20 if q else 200)
    ec.min_counter(merged, out, "repop_events", 5 if q else 50)
    ec.min_counter(merged, out, "task_certificates", 200 if q else 2000)
    ec.min_counter(merged, out, "final_optimality_checked", 60 if q else 600)
    ec.unexpected(merged, out)
    return out
