"""C09 - main loop: bounded, stops only at a fixed point, returns what it scored (trace specification)."""
import itertools

import numpy as np

from ticcmon import e2e_check
from ticcmon.checks import common, e2e_common as ec

LEVEL = "exploration"
RULE = ("traced runs with iteration_limit in {1,2,3,20,1000}, forced initial labellings that trigger repopulation in later rounds, both "
        "front ends; every run's phase trace is checked offline against the round grammar; plus forced histories in which the labelling of "
        "every round is scripted by the harness (all sequences of <=3 (thorough 4) symbols over {A, B, C, A with one point moved, a labelling that "
        "empties a cluster} x limits {1,2,3,4,6}; and 24 000-point runs whose consecutive labellings differ in 0..3 points); non-trivial = completed run with >=2 rounds; "
        "distinct by case hash")
ASSUMPTIONS = ["phases observed at the module-attribute call boundary of the real main loop",
               "per-task optimality certificate only when the worker's exit record says the stopping rule fired"]
SHARD_TIMEOUT = {"quick": 300, "thorough": 3400}
MIX = {"single:small": 3, "single:general": 2, "single:repop": 3, "single:converge": 2, "joint:joint": 1, "single:empty_final": 1}
PROPS = ("C09",)


def plan(tier, seed):
    specs = ec.plan_e2e(seed, 9, MIX, 180 if tier == "quick" else 2000, nwcap=12 if tier == "quick" else 24)
    if tier == "thorough":
        specs += ec.fixture_specs()
    parts = 10 if tier == "quick" else 16
    for p in range(parts):
        specs.append(dict(name="scripted-%d" % p, mode="interp", what="scripted", part=p, parts=parts, maxlen=3 if tier == "quick" else 4,
                          seed=[seed, 99, p]))
    for p in range(2 if tier == "quick" else 8):
        specs.append(dict(name="scripted-big-%d" % p, mode="interp", what="scripted_big", idx=p, seed=[seed, 999, p]))
    return specs


def nontrivial(run, I):
    return "r" if I.counts.get("rounds", 0) >= 2 else None


SYMBOLS = ["A", "B", "C", "A+1", "E"]
LIMITS = [1, 2, 3, 4, 6]


def scripted_case(pattern, limit, seed, T=64, N=1, W=1, K=2):
    return dict(front="single", data=dict(gen="regime", seed=int(seed), T=T + W - 1, N=N, n_reg=K, seg=8, scale=1.0, flavor="plain"),
                W=W, K=K, beta=dict(form="float", value=1.0), lam=dict(form="float", value=0.11), m=2, limit=int(limit), biased=True, eps=0.0,
                nproc=1, mp=False, rng_seed=int(seed) % 1000, init=dict(kind="blocks"), label_script=dict(pattern=list(pattern)))


def run_scripted(spec, res):
    """The labelling of every round is scripted (forced history); bound, stopping rule, repopulation guard and
    "returns what it scored" are then decided by the same trace oracle as for free-running runs."""
    rng = np.random.default_rng(spec["seed"])
    idx = 0
    cases = []
    for L in range(1, spec["maxlen"] + 1):
        for pattern in itertools.product(SYMBOLS, repeat=L):
            for limit in LIMITS:
                idx += 1
                if spec["maxlen"] <= 3 and L == 3 and (idx % 2):
                    continue                      # quick tier: every second length-3 pattern (all of them in the thorough tier)
                if idx % spec["parts"] == spec["part"]:
                    K = 2 + (idx // spec["parts"]) % 2
                    cases.append(scripted_case(pattern, limit, 1000 + idx, T=48 + 8 * (idx % 3), N=1 + idx % 2, W=1 + (idx // 7) % 2, K=K))
    e2e_check.run_cases(res, cases, PROPS, lambda run, I: "s" if I.counts.get("rounds", 0) >= 2 else None, sample_every=200, coverage_props=())
    res.counters["scripted_patterns_total"] = idx


def run_scripted_big(spec, res):
    """Many points, few label changes per round: a convergence test based on a *rate* of change cannot tell 1 moved point from none."""
    pats = [["A", "A+1", "A+1", "A+1"], ["A+3", "A+1", "A", "A"], ["A", "A+1", "A", "A+1", "A"], ["A+2", "A+1", "A+1"],
            ["A", "A+1", "A+2", "A+2"], ["A+1", "A", "A"], ["A", "A", "A+1"], ["A+1", "A+2", "A+1", "A+1"]]
    pattern = pats[spec["idx"] % len(pats)]
    case = scripted_case(pattern, 6, 5000 + spec["idx"], T=24000 + 1000 * (spec["idx"] % 3), N=1, W=1, K=2)
    e2e_check.run_cases(res, [case], PROPS, lambda run, I: "b", coverage_props=())
    res.count("scripted_big_runs")


def run_shard(spec, res):
    if spec.get("what") == "scripted":
        run_scripted(spec, res)
    elif spec.get("what") == "scripted_big":
        run_scripted_big(spec, res)
    else:
        ec.run_e2e_shard(spec, res, PROPS, nontrivial)


def replay(case, res):
    e2e_check.replay_case(res, case, PROPS)


def finalize(merged, tier):
    out = {"inconclusive": []}
    q = tier == "quick"
    ec.min_counter(merged, out, "runs_completed", 90 if q else 1000)
    ec.min_counter(merged, out, "early_stops", 20 if q else 200)
    ec.min_counter(merged, out, "limit_stops", 20 if q else 200)
    ec.min_counter(merged, out, "repop_events", 5 if q else 50)
    ec.min_counter(merged, out, "task_certificates", 200 if q else 2000)
    ec.min_counter(merged, out, "final_optimality_checked", 60 if q else 600)
    ec.min_counter(merged, out, "scripted_runs", 350 if q else 3000)
    ec.min_counter(merged, out, "scripted_big_runs", 2 if q else 8)
    ec.unexpected(merged, out)
    return out
