"""C17 - the Calinski-Harabasz index matches its definition (known finding: scalar centre)."""
from ticcmon import e2e_check
from ticcmon.checks import e2e_common as ec

LEVEL = "exploration"
RULE = ("converged traced runs (rounds < limit) with K>=2 and every cluster non-empty; reported index vs the per-column-centroid definition; "
        "the recorded scalar-centre deviation is recognised by recomputing exactly that variant; non-trivial = converged run on which the two "
        "variants differ (so the classifier discriminates); distinct by case hash")
ASSUMPTIONS = ["translation invariance is evaluated through the definition (which is invariant) per state"]
SHARD_TIMEOUT = {"quick": 900, "thorough": 3400}
MIX = {"single:converge": 6, "single:small": 2, "joint:converge": 1}
PROPS = ("C17",)


def plan(tier, seed):
    specs = ec.plan_e2e(seed, 17, MIX, 170 if tier == "quick" else 1700, nwcap=12 if tier == "quick" else 24)
    if tier == \"thorough\":
        specs += ec.fixture_specs()
    return specs


def nontrivial(run, I):
    return "c" if I.counts.get("ch_checked", 0) and not I.counts.get("ch_variants_coincide", 0) else None


def run_shard(spec, res):
    ec.run_e2e_shard(spec, res, PROPS, nontrivial)


def replay(case, res):
    e2e_check.replay_case(res, case, PROPS)


def finalize(merged, tier):
    out = {"inconclusive": []}
    ec.min_counter(merged, out, "ch_checked", 40 if tier == "quick" else 400)
    ec.unexpected(merged, out)
    return out
