"""C17 - the Calinski-Harabasz index matches its definition (known finding: scalar centre)."""
import numpy as np

from ticcmon import e2e_check
from ticcmon.checks import common, e2e_common as ec
from ticcmon.oracles import metrics

LEVEL = "exploration"
RULE = ("converged traced runs (rounds < limit) with K>=2 and every cluster non-empty; reported index vs the per-column-centroid definition; "
        "the recorded scalar-centre deviation is recognised by recomputing exactly that variant; non-trivial = converged run on which the two "
        "variants differ (so the classifier discriminates); distinct by case hash; plus synthetic converged states built by the harness (cluster sizes "
        "incl. 1, 2, 255..258, 511..513, 1025; biased/unbiased covariances; one or all sensors translated by up to 1e6 spreads) on which the metric "
        "function is called directly")
ASSUMPTIONS = ["translation invariance is evaluated through the definition (which is invariant) per state"]
SHARD_TIMEOUT = {"quick": 300, "thorough": 3400}
MIX = {"single:converge": 6, "single:small": 2, "joint:converge": 1}
PROPS = ("C17",)


def plan(tier, seed):
    specs = ec.plan_e2e(seed, 17, MIX, 150 if tier == "quick" else 1700, nwcap=12 if tier == "quick" else 24)
    for p, n in enumerate(common.split_counts(240 if tier == "quick" else 4000, 4 if tier == "quick" else 12)):
        specs.append(dict(name="synth-%d" % p, mode="interp", what="synth", n=n, seed=[seed, 171, p]))
    if tier == "thorough":
        specs += ec.fixture_specs()
    # the same work in an interpreter started with -O (assert statements compiled away)
    byname = {sp["name"]: sp for sp in specs}
    if 'synth-0' in byname:
        specs.append(common.under_O(byname['synth-0'], **{}))
    # converged runs whose LAST round began with a repopulation (forced history: the labelling with an under-populated cluster comes
    # back unchanged after the refill, so the run converges on it while the clusters' stored means are those of the refilled labelling)
    specs.append(dict(name="lastrepop", mode="interp", what="lastrepop", n=4 if tier == "quick" else 16, seed=[seed, 1717, 0]))
    return specs


def nontrivial(run, I):
    return "c" if I.counts.get("ch_checked", 0) and not I.counts.get("ch_variants_coincide", 0) else None


SIZES_OF_INTEREST = [1, 2, 3, 7, 31, 64, 255, 256, 257, 258, 511, 512, 513, 1025, 1, 2, 257, 4096, 4097, 5001]


def build_state(case):
    """A synthetic *converged* state: every cluster's mean and covariance are those of its own members."""
    from fast_ticc.containers import model_state as ms, arguments
    rng = np.random.default_rng(case["rng"])
    N, W, K = case["N"], case["W"], case["K"]
    nw = N * W
    sizes = case["sizes"]
    T = sum(sizes)
    labels = [k for k, s_ in enumerate(sizes) for _ in range(s_)]
    order = rng.permutation(T) if case["shuffle"] else np.arange(T)
    labels = [labels[i] for i in order]
    centres = rng.normal(size=(K, nw)) * case["sep"]
    if case["equal_column_means"]:
        centres = np.repeat(rng.normal(size=(K, 1)) * case["sep"], nw, axis=1)
    X = np.array([centres[l] for l in labels]) + rng.normal(size=(T, nw)) * case["spread"]
    X = X + np.asarray(case["offset"], dtype=np.float64)[None, :]
    args = arguments.UserArguments(0.1, 20, 1.0, 2, 0, K, 1, W, bool(case["biased"]))
    st = ms.ModelState.empty_model(args, X)
    st.point_labels = labels
    for k, c in enumerate(st.clusters):
        mem = c.member_points
        c.stacked_data_mean = np.mean(X[mem], axis=0)
        with np.errstate(all="ignore"):
            c.empirical_covariance = np.atleast_2d(np.cov(X[mem].T, bias=bool(case["biased"]))) if len(mem) > 1 or case["biased"] else np.zeros((nw, nw))
        c.train_inverse = np.eye(nw)
    return st, X, labels


def check_synth(res, case):
    from fast_ticc import cluster_metrics as cmx
    st, X, labels = build_state(case)
    K = case["K"]
    Xc = X.copy()
    try:
        got = float(cmx.calinski_harabasz_index(X, st))
    except Exception as e:
        res.violation("calinski_harabasz_index raised %s: %s (sizes %s)" % (type(e).__name__, str(e)[:150], case["sizes"]), case)
        return
    res.evaluations += 1
    with np.errstate(all="ignore"):
        d = metrics.ch_def(Xc, labels, K)
        s_ = metrics.ch_scalar_centre(Xc, labels, K)
    if not (np.isfinite(d) and np.isfinite(s_)):
        res.skipped("degenerate synthetic state")
        return

    # the within-cluster scatter is a sum of squares of (x - centroid): when the scatter is tiny compared with the values themselves
    # (tight, well separated clusters) it is only known to eps*|x|/|x - centroid| relative, whoever computes it
    lab_arr = np.asarray(labels)
    resid = np.concatenate([Xc[lab_arr == k] - Xc[lab_arr == k].mean(axis=0)[None, :] for k in range(K) if np.any(lab_arr == k)])
    rms = float(np.sqrt(np.mean(resid ** 2))) if resid.size else 0.0
    rel = 1e-8 + 1e3 * 2.3e-16 * float(np.max(np.abs(Xc))) / max(rms, 1e-300)
    if not rel < 1e-2:
        res.skipped("scatter below the resolution of the data")
        return

    def close(a, b):
        return abs(a - b) <= rel * max(abs(a), abs(b)) + 1e-300
    if case.get("tight"):
        res.count("states_with_tight_well_separated_clusters")
    res.count("synthetic_states_checked")
    if max(case["sizes"]) >= 255:
        res.count("states_with_a_cluster_of_255_or_more")
    if np.max(np.abs(case["offset"])) >= 1e4 * case["spread"]:
        res.count("states_with_large_offsets")
    if close(got, d):
        res.count("ch_matches_definition")
    elif close(got, s_):
        res.known_finding("ch-scalar-centre", "synthetic converged state: reported %r = scalar-centre variant, definition %r" % (got, d), case)
    else:
        res.violation("synthetic converged state (sizes %s, biased=%s, offset up to %.3g): reported %r equals neither the definition %r nor the "
                      "scalar-centre variant %r" % (case["sizes"], case["biased"], float(np.max(np.abs(case["offset"]))), got, d, s_), case)
    if not close(d, s_):
        res.nontriv(common.h(case))
    if not np.array_equal(X, Xc):
        res.violation("calinski_harabasz_index modified the data", case)


def run_synth(spec, res):
    rng = np.random.default_rng(spec["seed"])
    for i in range(spec["n"]):
        N, W = int(rng.integers(1, 4)), int(rng.integers(1, 4))
        K = int(rng.integers(2, 6))
        sizes = [int(rng.choice(SIZES_OF_INTEREST)) if rng.random() < 0.5 else int(rng.integers(1, 90)) for _ in range(K)]
        if sum(sizes) <= K:
            sizes[0] += K
        spread = float(10 ** rng.uniform(-3, 3))
        offset = np.zeros(N * W)
        u = rng.random()
        if u < 0.5:
            sensor = int(rng.integers(0, N))
            offset[sensor::N] = float(10 ** rng.uniform(0, 6)) * spread * (1 if rng.random() < 0.5 else -1)   # one sensor translated
        elif u < 0.7:
            offset[:] = float(10 ** rng.uniform(3, 6)) * spread                                               # every sensor translated
        case = dict(what="synth", rng=[int(v) for v in spec["seed"]] + [i], N=N, W=W, K=K, sizes=sizes, shuffle=bool(rng.integers(0, 2)),
                    sep=float(rng.uniform(0.5, 6)) * spread, spread=spread, offset=offset, biased=bool(rng.integers(0, 2)),
                    equal_column_means=bool(rng.random() < 0.3) and u >= 0.7)
        if i % 9 == 5:
            # tight, perfectly separated clusters (a quantised or piecewise-constant signal with a little jitter): the within-cluster
            # scatter is 12-20 orders of magnitude below the between-cluster scatter, the index is huge but finite
            case["tight"] = True
            case["offset"] = np.zeros(N * W)
            case["spread"] = case["sep"] * float(10 ** -rng.uniform(6, 10))
        check_synth(res, case)
        if i == 0:
            res.sample({k: v for k, v in case.items()})


def run_lastrepop(spec, res):
    from ticcmon.checks import c09
    cases = []
    for j in range(spec["n"]):
        K = 3 + j % 2
        c = c09.scripted_case(("E", "E"), 5, 1000 * int(spec["seed"][0]) + 17 + j, T=48 + 8 * (j % 4), N=1 + j % 2, W=1 + (j // 2) % 2, K=K)
        c["m"] = 2 + j % 3
        cases.append(c)
    e2e_check.run_cases(res, cases, PROPS, nontrivial, coverage_props=())
    res.count("converged_runs_with_a_repopulation_in_their_last_round", len(cases))


def run_shard(spec, res):
    if spec["what"] == "lastrepop":
        run_lastrepop(spec, res)
    elif spec["what"] == "synth":
        run_synth(spec, res)
    else:
        ec.run_e2e_shard(spec, res, PROPS, nontrivial)


def replay(case, res):
    if case.get("what") == "synth":
        check_synth(res, case)
    else:
        e2e_check.replay_case(res, case, PROPS)


def finalize(merged, tier):
    out = {"inconclusive": []}
    if merged["counters"].get("converged_runs_with_a_repopulation_in_their_last_round", 0) < 4:
        out["inconclusive"].append("fewer than 4 converged runs had a repopulation in their last round")
    if merged["counters"].get("states_with_tight_well_separated_clusters", 0) < (10 if tier == "quick" else 100):
        out["inconclusive"].append("only %d synthetic states with tight, well separated clusters" % merged["counters"].get("states_with_tight_well_separated_clusters", 0))
    ec.min_counter(merged, out, "ch_checked", 40 if tier == "quick" else 400)
    ec.min_counter(merged, out, "synthetic_states_checked", 150 if tier == "quick" else 2500)
    ec.min_counter(merged, out, "states_with_a_cluster_of_255_or_more", 40 if tier == "quick" else 600)
    ec.min_counter(merged, out, "states_with_large_offsets", 40 if tier == "quick" else 600)
    ec.unexpected(merged, out)
    return out
