"""C11 - compression and Toeplitz-class index maps are exact bijections (complete enumeration)."""
import numpy as np

from ticcmon.checks import common
from ticcmon.oracles import toeplitz as tz

LEVEL = "exploration"
RULE = ("complete enumeration: every n<=150 (thorough 400) for compress/reinflate/_full_matrix_size/_compressed_index over all r<=c; "
        "every (N,W), N<=10, W<=14 (thorough 16x20) for both location helpers over all (block,i,j); each memoised helper called twice, "
        "a second interpreter enumerates in reverse order; non-trivial = a distinct matrix size n>=2 or a distinct (N,W) with N>=2 and W>=2")
ASSUMPTIONS = ["reference: direct enumeration of the upper triangle in row-major order"]
SHARD_TIMEOUT = {"quick": 300, "thorough": 3000}


def plan(tier, seed):
    nmax, Nmax, Wmax = (150, 10, 14) if tier == "quick" else (400, 16, 20)
    specs = []
    parts = 4 if tier == "quick" else 8
    for rev in (False, True):
        for p in range(parts):
            specs.append(dict(name="maps-%s-%d" % ("rev" if rev else "fwd", p), mode="interp", what="compress", nmax=nmax,
                              part=p, parts=parts, reverse=rev, seed=[seed, 11, p]))
            specs.append(dict(name="classes-%s-%d" % ("rev" if rev else "fwd", p), mode="interp", what="classes", Nmax=Nmax, Wmax=Wmax,
                              part=p, parts=parts, reverse=rev))
    # the same maps called concurrently from several threads of one process (a caller fitting several models in a thread pool)
    for p in range(1 if tier == "quick" else 3):
        specs.append(dict(name="threads-%d" % p, mode="interp", what="threads", seed=[seed, 1111, p], rounds=1500 if tier == "quick" else 6000))
    return specs


def run_threads(spec, res):
    """4 threads, each with its own matrices of ONE common size, hammer compress / reinflate / index maps with a very short
    interpreter switch interval; every result is compared with that thread's own expected value."""
    import sys
    import threading
    from fast_ticc import matrix_compression as mc
    from fast_ticc.admm import unique_values as uv
    rng = np.random.default_rng(spec["seed"])
    n = int(rng.choice([6, 12, 40]))
    N, W = [(2, 3), (3, 4), (4, 10)][[6, 12, 40].index(n)]
    m = n * (n + 1) // 2
    old = sys.getswitchinterval()
    sys.setswitchinterval(5e-6)
    state = dict(inflight=0, max_inflight=0, bad=[], calls=0)
    lock = threading.Lock()

    def worker(tid):
        r = np.random.default_rng(list(spec["seed"]) + [tid])
        vals = r.permutation(m).astype(np.float64) + 0.25 + 1000.0 * tid
        M = tz.full_from_upper(n, vals)
        for it in range(spec["rounds"]):
            with lock:
                state["inflight"] += 1
                state["max_inflight"] = max(state["max_inflight"], state["inflight"])
            try:
                back = mc.reinflate_matrix(vals)
                comp = mc.compress_matrix(M)
                idx = uv._compressed_index(it % n, n - 1, n)
            finally:
                with lock:
                    state["inflight"] -= 1
                    state["calls"] += 1
            if back.shape != (n, n) or not np.array_equal(back, M):
                state["bad"].append("thread %d, call %d: reinflate_matrix returned a matrix that is not this thread's (n=%d)" % (tid, it, n))
                return
            if comp.shape != (m,) or not np.array_equal(comp, vals):
                state["bad"].append("thread %d, call %d: compress_matrix returned a vector that is not this thread's (n=%d)" % (tid, it, n))
                return
            lo, hi = sorted((it % n, n - 1))
            if idx != lo * n - lo * (lo - 1) // 2 + (hi - lo):
                state["bad"].append("thread %d, call %d: _compressed_index wrong under concurrency" % (tid, it))
                return
    try:
        ths = [threading.Thread(target=worker, args=(t,)) for t in range(4)]
        for t in ths:
            t.start()
        for t in ths:
            t.join()
    finally:
        sys.setswitchinterval(old)
    res.count("concurrent_map_calls", state["calls"])
    res.maxi("max_calls_in_flight", state["max_inflight"])
    for b in state["bad"][:2]:
        res.violation(b, dict(what="threads", seed=spec["seed"], rounds=spec["rounds"]))
    res.nontriv("threads-%d" % n)


def check_size(res, n, rng):
    from fast_ticc import matrix_compression as mc
    from fast_ticc.admm import unique_values as uv
    case = dict(what="compress", n=n)
    m = n * (n + 1) // 2
    # unique entries so that a misplaced element cannot hide
    vals = rng.permutation(m).astype(np.float64) + 0.25
    M = tz.full_from_upper(n, vals)
    comp = mc.compress_matrix(M)
    res.evaluations += 1
    if comp.shape != (m,) or not np.array_equal(comp, vals):
        res.violation("compress_matrix(n=%d) is not the row-major upper triangle" % n, case)
    back = mc.reinflate_matrix(comp)
    if back.shape != (n, n) or not np.array_equal(back.view(np.uint64), M.view(np.uint64)):
        res.violation("reinflate(compress(M)) != M for n=%d" % n, case)
    v = np.arange(m, dtype=np.float64)
    rt = mc.compress_matrix(mc.reinflate_matrix(v))
    if rt.shape != v.shape or not np.array_equal(rt, v):
        res.violation("compress(reinflate(v)) != v for n=%d" % n, case)
    if mc._full_matrix_size(m) != n:
        res.violation("_full_matrix_size(%d) = %r, expected %d" % (m, mc._full_matrix_size(m), n), case)
    rank = 0
    for twice in range(2):
        rank = 0
        for r in range(n):
            for c in range(r, n):
                got = uv._compressed_index(r, c, n)
                if got != rank or not isinstance(got, (int, np.integer)):
                    res.violation("_compressed_index(%d,%d,%d) = %r, row-major rank is %d" % (r, c, n, got, rank), case)
                    return
                rank += 1
    res.count("index_ranks_checked", rank)
    if n >= 2:
        res.nontriv("n=%d" % n)


def check_classes(res, N, W):
    from fast_ticc.admm import unique_values as uv
    case = dict(what="classes", N=N, W=W)
    n = N * W
    ref = tz.toeplitz_classes(N, W)
    seen = {}
    res.evaluations += 1
    for b in range(W):
        for i in range(N):
            for j in range(i if b == 0 else 0, N):
                for twice in range(2):
                    comp = list(uv.locations_compressed(b, i, j, N, W))
                    rows, cols = uv.locations_index_slices(b, i, j, N, W)
                rows, cols = list(rows), list(cols)
                pos = list(zip(rows, cols))
                if len(pos) != W - b or len(comp) != W - b:
                    res.violation("class (%d,%d,%d) of (N=%d,W=%d) has %d/%d positions, expected %d" % (b, i, j, N, W, len(pos), len(comp), W - b), case)
                    return
                if sorted(pos) != sorted(ref.get((b, i, j), [])):
                    res.violation("class (%d,%d,%d) of (N=%d,W=%d): positions %s differ from the block-Toeplitz class %s" % (
                        b, i, j, N, W, sorted(pos)[:4], sorted(ref.get((b, i, j), []))[:4]), case)
                    return
                for (r, c), ci in zip(pos, comp):
                    if not (0 <= r <= c < n):
                        res.violation("position (%d,%d) outside the upper triangle, class (%d,%d,%d) N=%d W=%d" % (r, c, b, i, j, N, W), case)
                        return
                    rank = r * n - r * (r - 1) // 2 + (c - r)
                    if ci != rank:
                        res.violation("class (%d,%d,%d) N=%d W=%d: compressed index %r does not name (%d,%d) (rank %d)" % (b, i, j, N, W, ci, r, c, rank), case)
                        return
                    if (r, c) in seen:
                        res.violation("position (%d,%d) in two classes %s and %s (N=%d W=%d)" % (r, c, seen[(r, c)], (b, i, j), N, W), case)
                        return
                    seen[(r, c)] = (b, i, j)
                res.count("class_positions_checked", len(pos))
    if len(seen) != n * (n + 1) // 2:
        res.violation("classes cover %d of %d upper-triangle positions (N=%d W=%d)" % (len(seen), n * (n + 1) // 2, N, W), case)
    if N >= 2 and W >= 2:
        res.nontriv("N=%d,W=%d" % (N, W))


def run_shard(spec, res):
    if spec["what"] == "threads":
        run_threads(spec, res)
        return
    if spec["what"] == "compress":
        rng = np.random.default_rng(spec["seed"])
        sizes = [n for n in range(1, spec["nmax"] + 1)]
        # balance: cost ~ n^2, deal sizes round-robin
        mine = [n for k, n in enumerate(sizes) if k % spec["parts"] == spec["part"]]
        if spec["reverse"]:
            mine = mine[::-1]
        for n in mine:
            check_size(res, n, rng)
        res.sample(dict(what="compress/index maps", sizes=mine[:8]))
    else:
        pairs = [(N, W) for N in range(1, spec["Nmax"] + 1) for W in range(1, spec["Wmax"] + 1)]
        mine = [p for k, p in enumerate(pairs) if k % spec["parts"] == spec["part"]]
        if spec["reverse"]:
            mine = mine[::-1]
        for N, W in mine:
            check_classes(res, N, W)
        res.sample(dict(what="toeplitz classes", pairs=mine[:8]))


def replay(case, res):
    if case["what"] == "threads":
        run_threads(dict(seed=case["seed"], rounds=case["rounds"]), res)
        return
    if case["what"] == "compress":
        check_size(res, case["n"], np.random.default_rng(0))
    else:
        check_classes(res, case["N"], case["W"])


def finalize(merged, tier):
    nmax, Nmax, Wmax = (150, 10, 14) if tier == "quick" else (400, 16, 20)
    # each size / pair is enumerated by a forward and a reverse shard
    want = 2 * (nmax + Nmax * Wmax)
    out = {"exhaustive": merged["evaluations"] == want and not merged["inconclusive"], "inconclusive": []}
    if merged["evaluations"] != want:
        out["inconclusive"].append("enumeration incomplete: %d of %d" % (merged["evaluations"], want))
    out["space"] = "n<=%d; N<=%d, W<=%d" % (nmax, Nmax, Wmax)
    if merged["counters"].get("max_max_calls_in_flight", merged["counters"].get("max_calls_in_flight", 0)) < 2:
        out["inconclusive"].append("the concurrent shard never had two calls of the maps in flight at once")
    return out
