"""Factory for the checks decided on traced end-to-end runs."""
import numpy as np

from ticcmon import e2e_check
from ticcmon.checks import common
from ticcmon.workloads import cases as wc

GEN = {
    "single:general": lambda rng: wc.gen_single(rng, "general"),
    "single:small": lambda rng: wc.gen_single(rng, "small"),
    "single:empty_final": lambda rng: wc.gen_single(rng, "empty_final"),
    "single:repop": lambda rng: wc.gen_single(rng, "repop"),
    "single:converge": lambda rng: wc.gen_single(rng, "converge"),
    "single:hostile": lambda rng: wc.gen_single(rng, "hostile"),
    "single:plain": lambda rng: wc.gen_single(rng, "plain"),
    "joint:joint": lambda rng: wc.gen_joint(rng, "joint"),
    "joint:general": lambda rng: wc.gen_joint(rng, "general"),
    "joint:empty_final": lambda rng: wc.gen_joint(rng, "empty_final"),
    "joint:converge": lambda rng: wc.gen_joint(rng, "converge"),
    "joint:repop": lambda rng: wc.gen_joint(rng, "repop"),
}

FIXTURES = {
    "fixture:single": dict(front="single", data=dict(gen="fixture", name="single"), W=10, K=5, beta=dict(form="int", value=200),
                           lam=dict(form="float", value=0.11), m=20, limit=1000, biased=False, eps=0, nproc=1, mp=False,
                           rng_seed=0, init=None),
}


def plan_e2e(seed, tag, mix, total, shards=None, extra=None, timeout=None, nwcap=12):
    if shards is None:
        shards = max(16, min(64, total // 4))   # many small shards: the runner keeps 16 busy, which balances slow cases
    specs = []
    for i, n in enumerate(common.split_counts(total, shards)):
        if n == 0:
            continue
        sp = dict(name="e2e-%d" % i, mode="interp", what="e2e", mix=mix, n=n, seed=[seed, tag, i], nwcap=nwcap)
        if timeout:
            sp["timeout"] = timeout
        specs.append(sp)
    return specs + list(extra or [])


def run_e2e_shard(spec, res, props, nontrivial, coverage_props=None):
    wc.NW_CAP[0] = int(spec.get("nwcap", 12))
    gens = [(w, GEN[name]) for name, w in spec["mix"].items()]
    stream = e2e_check.case_stream(spec["seed"], spec["n"], gens)
    e2e_check.run_cases(res, stream, props, nontrivial, coverage_props=coverage_props if coverage_props is not None else props)


def min_counter(merged, out, key, least):
    v = merged["counters"].get(key, 0)
    if v < least:
        out["inconclusive"].append("monitor counter %s=%d below the minimum %d" % (key, v, least))


def unexpected(merged, out):
    ue = merged["counters"].get("unexpected_exceptions", [])
    if ue:
        out["inconclusive"].append("runs ended with exceptions outside the expected classes: %s" % ue[:3])
    anchors = merged["counters"].get("anchors", {})
    miss = [k for k, v in anchors.items() if v == "not_executed"]
    if miss:
        out["inconclusive"].append("anchor lines never executed by the workload: %s" % miss[:3])
    out["anchors"] = anchors
