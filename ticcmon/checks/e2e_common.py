"""Factory for the checks decided on traced end-to-end runs."""
import numpy as np

from ticcmon import e2e_check
from ticcmon.checks import common
from ticcmon.workloads import cases as wc

GEN = {
    "single:general": lambda rng: wc.gen_single(rng, "general"),
    "single:small": lambda rng: wc.gen_single(rng, "small"),
    "single:empty_final": lambda rng: wc.gen_single(rng, "empty_final"),
    "single:repop": lambda rng: wc.gen_single(rng, "repop"),
    "single:converge": lambda rng: wc.gen_single(rng, "converge"),
    "single:hostile": lambda rng: wc.gen_single(rng, "hostile"),
    "single:plain": lambda rng: wc.gen_single(rng, "plain"),
    "large:long": lambda rng: wc.gen_large(rng, "long"),
    "large:manyK": lambda rng: wc.gen_large(rng, "manyK"),
    "large:verylong": lambda rng: wc.gen_large(rng, "verylong"),
    "large:bigNW": lambda rng: wc.gen_large(rng, "bigNW"),
    "large:manyrounds": lambda rng: wc.gen_large(rng, "manyrounds"),
    "large:doublerepop": lambda rng: wc.gen_large(rng, "doublerepop"),
    "large:slowdrift": lambda rng: wc.gen_large(rng, "slowdrift"),
    "large:donorrank": lambda rng: wc.gen_large(rng, "donorrank"),
    "large:manyK11": lambda rng: wc.gen_large(rng, "manyK11"),
    "joint:joint": lambda rng: wc.gen_joint(rng, "joint"),
    "joint:general": lambda rng: wc.gen_joint(rng, "general"),
    "joint:empty_final": lambda rng: wc.gen_joint(rng, "empty_final"),
    "joint:converge": lambda rng: wc.gen_joint(rng, "converge"),
    "joint:repop": lambda rng: wc.gen_joint(rng, "repop"),
}

FIXTURES = {
    # the two pinned data sets with the suite's parameters (N=4, W=10, K=5, beta=200, seed 12345)
    "single": dict(front="single", data=dict(gen="fixture", name="single", T=359), W=10, K=5, beta=dict(form="int", value=200),
                   lam=dict(form="float", value=0.11), m=20, limit=1000, biased=False, eps=0, nproc=5, mp=False,
                   rng_seed=12345, init=None),
    "multi": dict(front="joint", data=dict(gen="fixture", name="multi", T=[0] * 10), W=10, K=5, beta=dict(form="int", value=200),
                  lam=dict(form="float", value=0.11), m=20, limit=1000, biased=False, eps=0, nproc=5, mp=False,
                  rng_seed=12345, init=None, container="list"),
    # a variant that the suite never runs: 3 of the series, biased estimator, 3-process pool, vector-free beta
    "multi3": dict(front="joint", data=dict(gen="fixture", name="multi", nseries=3, T=[0] * 3), W=10, K=4, beta=dict(form="float", value=50.0),
                   lam=dict(form="float", value=0.11), m=20, limit=20, biased=True, eps=0, nproc=3, mp=True,
                   rng_seed=7, init=None, container="tuple"),
}


def fixture_specs():
    return [dict(name="fixture-" + k, mode="interp", what="fixture", which=k, timeout=3000) for k in FIXTURES]


def plan_e2e(seed, tag, mix, total, shards=None, extra=None, timeout=None, nwcap=12):
    if shards is None:
        shards = max(16, min(64, total // 4))   # many small shards: the runner keeps 16 busy, which balances slow cases
    specs = []
    mix = dict(mix)
    tot_w = float(sum(mix.values()))
    for name, frac in (("large:long", 0.025), ("large:manyK", 0.025), ("large:bigNW", 0.015), ("large:verylong", 0.015), ("large:manyrounds", 0.025)):
        mix.setdefault(name, tot_w * frac)
    for i, n in enumerate(common.split_counts(total, shards)):
        if n == 0:
            continue
        sp = dict(name="e2e-%d" % i, mode="interp", what="e2e", mix=mix, n=n, seed=[seed, tag, i], nwcap=nwcap)
        if i % 8 == 5:
            sp["env"] = {"PYTHONOPTIMIZE": "1"}      # an interpreter started with -O: assert statements are compiled away
            sp["name"] += "-O"
        if timeout:
            sp["timeout"] = timeout
        specs.append(sp)
    # a fixed handful of runs whose first dozens of rounds are forced by the harness and that then finish on their own
    # (behaviour that sets in only after many rounds), whatever the random mix drew
    specs.append(dict(name="e2e-manyrounds", mode="interp", what="e2e", mix={"large:manyrounds": 1.0}, n=3 if total < 600 else 12,
                      seed=[seed, tag, 7777], nwcap=nwcap))
    specs.append(dict(name="e2e-slowdrift", mode="interp", what="e2e", mix={"large:slowdrift": 1.0}, n=1 if total < 600 else 4,
                      seed=[seed, tag, 9999], nwcap=nwcap))
    specs.append(dict(name="e2e-manyK11", mode="interp", what="e2e", mix={"large:manyK11": 1.0}, n=2 if total < 600 else 6,
                      seed=[seed, tag, 1111], nwcap=nwcap))       # more than ten clusters, whatever the random mix drew
    for kind_ in ("verylong", "long", "bigNW"):
        specs.append(dict(name="e2e-" + kind_, mode="interp", what="e2e", mix={"large:" + kind_: 1.0}, n=1 if total < 600 else 3,
                          seed=[seed, tag, 2222], nwcap=nwcap))   # (sizes beyond the usual ones, whatever the random mix drew)
    # ... and of runs in which two clusters are refilled in one round from two different donors that the relabelling before left alone
    specs.append(dict(name="e2e-doublerepop", mode="interp", what="e2e", mix={"large:doublerepop": 1.0}, n=4 if total < 600 else 16,
                      seed=[seed, tag, 8888], nwcap=nwcap))
    return specs + list(extra or [])


def run_e2e_shard(spec, res, props, nontrivial, coverage_props=None):
    if spec.get("what") == "fixture":
        e2e_check.run_cases(res, [dict(FIXTURES[spec["which"]])], props, nontrivial, coverage_props=())
        res.count("fixture_runs")
        return
    wc.NW_CAP[0] = int(spec.get("nwcap", 12))
    gens = [(w, GEN[name]) for name, w in spec["mix"].items()]
    stream = e2e_check.case_stream(spec["seed"], spec["n"], gens)
    e2e_check.run_cases(res, stream, props, nontrivial, coverage_props=coverage_props if coverage_props is not None else props)


def min_counter(merged, out, key, least):
    v = merged["counters"].get(key, 0)
    if v < least:
        out["inconclusive"].append("monitor counter %s=%d below the minimum %d" % (key, v, least))


def unexpected(merged, out):
    ue = merged["counters"].get("unexpected_exceptions", [])
    if ue:
        out["inconclusive"].append("runs ended with exceptions outside the expected classes: %s" % ue[:3])
    if merged["counters"].get("runs_with_a_forced_history_then_natural_rounds", 0) < 2:
        out["inconclusive"].append("fewer than 2 runs continued on their own after a forced history of many rounds")
    anchors = merged["counters"].get("anchors", {})
    # anchor coverage is evidence only (it is sampled on the first cases of each shard); the deciding "was it reached" information
    # are the monitor counters with minimums in each check's finalize()
    out["anchors"] = anchors
    out["anchors_not_executed_in_the_sampled_cases"] = [k for k, v in anchors.items() if v == "not_executed"]
