"""C02 - when the ADMM solver stops by its rule, Theta is the block-Toeplitz graphical-lasso optimum
(epsilon-KKT certificate); with default step, lambda<=1 and spectrum in [0.25,4] it always stops."""
import math

import numpy as np

from ticcmon import e2e_check, instrument
from ticcmon.checks import common, e2e_common as ec
from ticcmon.oracles import toeplitz as tz
from ticcmon.workloads import data as wd

LEVEL = "exploration"
RULE = ("random problems: (N,W) with NW<=20 (thorough 60) x covariance classes {full, rank deficient, diagonal, rank-1+eps, sample, "
        "block-Toeplitz VAR, spectrum in [0.25,4]} x lambda {0, scalar, constant matrix, random symmetric matrix} x rho in [0.1,10] x "
        "rho-update callbacks {none, residual balancing, bounded walk} x tolerances {1e-4,1e-6,1e-8} x budgets {5,50,1000}; a case is "
        "non-trivial when the solver stopped by its rule with NW>=2 and the certificate was evaluated (not skipped as ill-conditioned); "
        "distinct by hash of (S, lambda, parameters)")
ASSUMPTIONS = ["certificate derived from the update equations and the caller's tolerances (DESIGN C02), safety factor 1.5 + float term",
               "exit record (rule fired / iterations) observed by wrapping solver.check_convergence from the harness",
               "problems with cond(Theta)>1e10 are skipped and counted"]
SHARD_TIMEOUT = {"quick": 300, "thorough": 3400}

COV_KINDS = ["full", "rankdef", "diag", "corr", "samples", "toeplitz_var", "spectrum", "full_scaled"]
LAM_KINDS = ["zero", "scalar", "scalar", "matrix_const", "matrix_rand"]
CALLBACKS = [None, None, "balance", "walk"]


E2E_MIX = {"single:small": 3, "single:general": 2, "single:repop": 1, "joint:joint": 1}


def plan(tier, seed):
    specs = ec.plan_e2e(seed, 202, E2E_MIX, 48 if tier == "quick" else 600, nwcap=12 if tier == "quick" else 24)
    if tier == "quick":
        for p in range(13):
            specs.append(dict(name="cond-%d" % p, mode="interp", what="conditional", n=32, nwmax=20, seed=[seed, 2, p]))
        for p in range(3):
            specs.append(dict(name="uncond-%d" % p, mode="interp", what="unconditional", n=16, nwmax=30, seed=[seed, 22, p]))
    else:
        for p in range(12):
            specs.append(dict(name="cond-%d" % p, mode="interp", what="conditional", n=170, nwmax=60, seed=[seed, 2, p], xcheck=True))
        for p in range(4):
            specs.append(dict(name="uncond-%d" % p, mode="interp", what="unconditional", n=100, nwmax=60, seed=[seed, 22, p]))
    return specs


HELD_RESULTS = []


def cb_balance(rho, rp, tp, rd, td):
    if rp > 10 * rd:
        return rho * 2
    if rd > 10 * rp:
        return rho / 2
    return rho


class Walk:
    def __init__(self, seed):
        self.rng = np.random.default_rng(seed)

    def __call__(self, rho, rp, tp, rd, td):
        return float(min(10.0, max(0.1, rho * float(self.rng.choice([0.8, 1.0, 1.0, 1.25])))))


def make_problem(d):
    rng = np.random.default_rng(d["rng"])
    N, W = d["N"], d["W"]
    n = N * W
    kind = d["cov"]
    cd = dict(seed=int(rng.integers(0, 2 ** 31)), n=n, kind=kind, N=N, W=W, pts=int(rng.integers(2, 2 * n + 2)),
              sub=int(rng.integers(0, 4)))
    if kind == "full_scaled":
        cd["kind"] = "full"
        cd["scale"] = float(10 ** rng.uniform(-3, 3))
    S = wd.make_covariance(cd)
    lk = d["lam"]
    if lk == "zero":
        lam = 0.0
    elif lk == "scalar":
        lam = float(10 ** rng.uniform(-3, math.log10(d.get("lammax", 5.0))))
    elif lk == "matrix_const":
        lam = np.full((n, n), float(10 ** rng.uniform(-3, math.log10(d.get("lammax", 5.0)))))
    else:
        L = rng.uniform(0, d.get("lammax", 3.0), size=(n, n))
        lam = (L + L.T) / 2
    return S, lam


def run_problem(res, admm, d):
    N, W = d["N"], d["W"]
    n = N * W
    S, lam = make_problem(d)
    S_before = S.copy()
    cbk = d.get("cb")
    cb = cb_balance if cbk == "balance" else (Walk(d["rng"]) if cbk == "walk" else None)
    instrument.ADMM_LAST.clear()
    kw = dict(rho=d["rho"], rho_update=cb, max_iterations=d["budget"], absolute_tolerance=d["abstol"], relative_tolerance=d["reltol"])
    if d.get("defaults"):
        kw = {}
    try:
        r = admm.admm_optimize_theta(S, lam, W, N, **kw)
    except Exception as e:
        res.violation("optimiser raised %s: %s (N=%d W=%d cov=%s lam=%s)" % (type(e).__name__, e, N, W, d["cov"], d["lam"]), d)
        return None
    res.evaluations += 1
    rec = instrument.admm_exit_record()
    theta = np.asarray(r.theta)
    # history: results handed out earlier stay what they were, whatever is solved afterwards
    for old_arr, old_copy, old_d in HELD_RESULTS:
        if old_arr.shape != old_copy.shape or not np.array_equal(old_arr, old_copy, equal_nan=True):
            res.violation("a Theta returned by an earlier call (N=%d W=%d) changed when a later problem (N=%d W=%d) was solved" % (
                old_d["N"], old_d["W"], N, W), old_d)
            del HELD_RESULTS[:]
            break
    res.count("earlier_results_rechecked", len(HELD_RESULTS))
    if isinstance(r.theta, np.ndarray):
        HELD_RESULTS.append((r.theta, np.array(r.theta, copy=True), d))
        del HELD_RESULTS[:-6]
    budget = d["budget"]
    if theta.shape != (n * (n + 1) // 2,):
        res.violation("returned theta has shape %s, expected (%d,)" % (theta.shape, n * (n + 1) // 2), d)
        return None
    if rec["ncalls"] == 0 and budget > 1:
        res.count("no_exit_record")
        return None
    if rec["ncalls"] > budget - 1:
        res.violation("solver checked convergence %d times with an iteration budget of %d" % (rec["ncalls"], budget), d)
    res.count("stopped" if rec["stopped"] else "budget_exhausted")
    res.count("cov:" + d["cov"])
    res.count("lam:" + d["lam"])
    res.count("cb:" + str(cbk))
    if d.get("unconditional"):
        if not rec["stopped"]:
            res.violation("unconditional clause: solver did not stop within %d iterations (N=%d W=%d lambda %s, spectrum in [0.25,4], rho=1)" % (
                budget, N, W, d["lam"]), d)
            return None
        res.maxi("iterations_unconditional", int(rec["iterations"]))
    if not rec["stopped"]:
        return None
    if rec["abstol"] != d["abstol"] or rec["reltol"] != d["reltol"] or rec["max_iterations"] != budget:
        res.violation("solver ran with tolerances/budget (%r,%r,%r), caller passed (%r,%r,%r)" % (
            rec["abstol"], rec["reltol"], rec["max_iterations"], d["abstol"], d["reltol"], budget), d)
    cert = tz.kkt_certificate(theta, S_before, lam, N, W, d["abstol"], d["reltol"])
    if cert["skipped"]:
        res.count("skipped_illconditioned")
        return None
    res.count("certificates")
    res.maxi("ratio_kkt_x1000", int(min(cert["ratio_kkt"], 1e6) * 1000))
    res.maxi("ratio_toeplitz_x1000", int(min(cert["ratio_toeplitz"], 1e6) * 1000))
    if cert["ratio_kkt"] > 1.0:
        res.violation("stopped after %s iterations but the epsilon-KKT certificate fails: ratio %.3g, class %s (N=%d W=%d cov=%s lam=%s rho=%.3g cb=%s)" % (
            rec["iterations"], cert["ratio_kkt"], cert["worst_class"], N, W, d["cov"], d["lam"], d["rho"], cbk), d, cert)
    if cert["ratio_toeplitz"] > 1.0:
        res.violation("stopped but Theta is not block-Toeplitz within the primal tolerance: ratio %.3g (N=%d W=%d)" % (cert["ratio_toeplitz"], N, W), d, cert)
    if n >= 2:
        res.nontriv(common.h(S_before, np.asarray(lam), d["rho"], d["abstol"], d["reltol"], cbk, budget))
    if not np.array_equal(S, S_before):
        res.violation("optimiser modified the caller's covariance", d)
    return theta, S_before, lam, cert


def objective_crosscheck(res, d, theta, S, lam, cert):
    """Thorough tier: f(Pi(X)) <= f(Y) + tol for the reference solver's Y and random feasible perturbations."""
    N, W = d["N"], d["W"]
    n = N * W
    if n > 12 or d["lam"] == "zero" and d["cov"] in ("rankdef", "corr", "samples"):
        return
    X = tz.project_toeplitz(tz.full_from_upper(n, theta), N, W)
    fx = tz.objective(X, S, lam)
    Y = tz.reference_solve(S, lam, N, W)
    if Y is None or not math.isfinite(fx):
        res.count("xcheck_skipped")
        return
    fy = tz.objective(Y, S, lam)
    # f is Lipschitz near X with constant ~ ||X^-1 - S|| + ||lambda||; the iterate is within tau_p of feasibility
    slack = 50.0 * (cert["tau_p"] + cert["tau_d"]) * (1.0 + float(np.linalg.norm(np.linalg.inv(X) - S)) + float(np.linalg.norm(tz.lambda_matrix(lam, n)))) * n
    res.count("objective_crosschecks")
    if fx > fy + slack:
        res.violation("objective %.10g exceeds the reference solver's %.10g by more than %.3g (N=%d W=%d)" % (fx, fy, slack, N, W), d)
    rng = np.random.default_rng(d["rng"] + [99])
    for _ in range(10):
        P = tz.project_toeplitz(rng.normal(size=(n, n)), N, W)
        P = (P + P.T) / 2
        Z = X + 1e-3 * float(np.linalg.eigvalsh(X)[0]) * P / max(1e-300, float(np.linalg.norm(P, 2)))    # stays inside the cone
        fz = tz.objective(Z, S, lam)
        if fz < fx - slack:
            res.violation("a feasible Toeplitz perturbation has objective %.10g < %.10g - slack" % (fz, fx), d)
            break


def gen_case(rng, spec, i, unconditional):
    while True:
        N = int(rng.integers(1, 7))
        W = int(rng.integers(1, 11))
        if N * W <= spec["nwmax"]:
            break
    if unconditional:
        return dict(what="unconditional", unconditional=True, rng=[int(v) for v in spec["seed"]] + [i], N=N, W=W, cov="spectrum",
                    lam=["zero", "scalar", "matrix_const", "matrix_rand"][i % 4], lammax=1.0, rho=1, cb=None, budget=1000,
                    abstol=1e-6, reltol=1e-6, defaults=(i % 2 == 0))
    return dict(what="conditional", rng=[int(v) for v in spec["seed"]] + [i], N=N, W=W,
                cov=COV_KINDS[int(rng.integers(0, len(COV_KINDS)))], lam=LAM_KINDS[int(rng.integers(0, len(LAM_KINDS)))],
                rho=float(10 ** rng.uniform(-1, 1)), cb=CALLBACKS[int(rng.integers(0, len(CALLBACKS)))],
                budget=int(rng.choice([5, 50, 1000, 1000, 1000])), abstol=float(rng.choice([1e-4, 1e-6, 1e-8])),
                reltol=float(rng.choice([1e-4, 1e-6, 1e-8])))


def run_shard(spec, res):
    if spec["what"] in ("e2e", "fixture"):
        # every optimisation task of traced runs: its MRF must pass the certificate against this round's covariance of its own cluster
        ec.run_e2e_shard(spec, res, ("C02",), lambda run, I: "t" if I.counts.get("task_certificates", 0) else None, coverage_props=())
        return
    from fast_ticc import admm
    instrument.install_admm_monitor()
    rng = np.random.default_rng(spec["seed"])
    prev = None
    for i in range(spec["n"]):
        d = gen_case(rng, spec, i, spec["what"] == "unconditional")
        if prev is not None and i % 3 == 2:
            d["N"], d["W"] = prev         # same shape as the previous problem: shared workspaces / memo tables are reused
        prev = (d["N"], d["W"])
        out = run_problem(res, admm, d)
        if out is not None and spec.get("xcheck"):
            objective_crosscheck(res, d, *out)
        if i == 0:
            res.sample({k: v for k, v in d.items()})
    from fast_ticc.admm import solver
    if not getattr(solver.check_convergence, "_ticcmon", False):
        res.inconclusive.append("check_convergence wrapper was replaced")


def replay(case, res):
    if case.get("front"):
        e2e_check.replay_case(res, case, ("C02",))
        return
    from fast_ticc import admm
    instrument.install_admm_monitor()
    out = run_problem(res, admm, case)
    if out is not None:
        objective_crosscheck(res, case, *out)


def finalize(merged, tier):
    c = merged["counters"]
    out = {"inconclusive": []}
    need = 150 if tier == "quick" else 800
    if c.get("certificates", 0) < need:
        out["inconclusive"].append("only %d certificates evaluated (need %d): stopped=%d no_exit_record=%d" % (
            c.get("certificates", 0), need, c.get("stopped", 0), c.get("no_exit_record", 0)))
    if c.get("task_certificates", 0) < (150 if tier == "quick" else 2000):
        out["inconclusive"].append("only %d per-task certificates inside traced runs" % c.get("task_certificates", 0))
    if c.get("budget_exhausted", 0) < 3:
        out["inconclusive"].append("the 'did not stop => no claim' branch was exercised only %d times" % c.get("budget_exhausted", 0))
    out["max_ratio_kkt"] = c.get("max_ratio_kkt_x1000", 0) / 1000.0
    out["max_ratio_toeplitz"] = c.get("max_ratio_toeplitz_x1000", 0) / 1000.0
    return out
