"""C12 - each cluster is fitted to exactly its own windows with the requested estimator."""
from ticcmon import e2e_check
from ticcmon.checks import e2e_common as ec

LEVEL = "exploration"
RULE = ("traced runs, biased in {False,True}, matrix-valued lambda, repopulation events; every statistics-phase output and every recorded "
        "optimisation task is compared with two-pass statistics of the windows labelled k; non-trivial = completed run with >=2 rounds or a "
        "repopulation event; distinct by case hash")
ASSUMPTIONS = ["task arguments observed through a class-level Pool.apply_async shim in the parent process"]
SHARD_TIMEOUT = {"quick": 300, "thorough": 3400}
MIX = {"single:small": 3, "single:general": 3, "single:repop": 3, "joint:joint": 1, "single:hostile": 2}
PROPS = ("C12",)


def plan(tier, seed):
    specs = ec.plan_e2e(seed, 12, MIX, 160 if tier == "quick" else 1600, nwcap=12 if tier == "quick" else 24)
    if tier == "thorough":
        specs += ec.fixture_specs()
    return specs


def nontrivial(run, I):
    return "r" if (I.counts.get("rounds", 0) >= 2 or I.counts.get("repop_events", 0)) else None


def run_shard(spec, res):
    ec.run_e2e_shard(spec, res, PROPS, nontrivial)


def replay(case, res):
    e2e_check.replay_case(res, case, PROPS)


def finalize(merged, tier):
    out = {"inconclusive": []}
    q = tier == "quick"
    ec.min_counter(merged, out, "cluster_statistics_checked", 500 if q else 5000)
    ec.min_counter(merged, out, "task_arguments_checked", 500 if q else 5000)
    ec.min_counter(merged, out, "optimiser_receipts_observed", 400 if q else 4000)    # what the entry point received inside the workers
    ec.min_counter(merged, out, "repop_events", 5 if q else 50)
    ec.unexpected(merged, out)
    return out
