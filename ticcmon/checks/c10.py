"""C10 - window stacking is exact (bitwise) and never crosses a series boundary."""
import numpy as np

from ticcmon.checks import common
from ticcmon.oracles import stack as st

LEVEL = "exploration"
RULE = ("complete shape grid T in [W,W+40], W in [1,12], N in [1,6] (2952 shapes), each with hostile value fills (random, +-inf, -0.0, "
        "NaN payloads, denormals, int/float32 inputs); tuples of 1..6 series; split/pad round trips; non-trivial = distinct shape with W>=2 "
        "(rows overlap) or a multi-series tuple with >=2 series")
ASSUMPTIONS = ["reference: numpy sliding_window_view; float64 compared through uint64 views"]
SHARD_TIMEOUT = {"quick": 300, "thorough": 3000}
FILLS = ["random", "inf", "negzero", "nanpayload", "denormal", "int", "float32", "mixed", "colslice", "rowstep"]


def plan(tier, seed):
    specs = []
    parts = 8
    fills = 1 if tier == "quick" else 8
    tuples = 400 if tier == "quick" else 3000
    for p in range(parts):
        specs.append(dict(name="grid-%d" % p, mode="interp", what="grid", part=p, parts=parts, fills=fills, seed=[seed, 10, p]))
        specs.append(dict(name="multi-%d" % p, mode="interp", what="multi", n=tuples // parts, seed=[seed, 110, p]))
    specs.append(dict(name="frontend", mode="interp", what="frontend", n=3 if tier == "quick" else 12, seed=[seed, 1010, 0]))
    for p in range(3):
        specs.append(dict(name="large-%d" % p, mode="interp", what="large", part=p, parts=3, seed=[seed, 1011, p]))
    # the same helpers and front ends in an interpreter started with -O (assert statements compiled away)
    opt = {"PYTHONOPTIMIZE": "1"}
    specs.append(dict(name="multi-O", mode="interp", what="multi", n=tuples // parts, seed=[seed, 110, 97], env=opt))
    specs.append(dict(name="frontend-O", mode="interp", what="frontend", n=3 if tier == "quick" else 12, seed=[seed, 1010, 97], env=opt))
    specs.append(dict(name="grid-O", mode="interp", what="grid", part=3, parts=parts, fills=1, seed=[seed, 10, 97], env=opt))
    return specs


def fill(rng, T, N, kind):
    x = rng.normal(size=(T, N))
    if kind == "inf":
        x[rng.random((T, N)) < 0.2] = np.inf
        x[rng.random((T, N)) < 0.2] = -np.inf
    elif kind == "negzero":
        x[rng.random((T, N)) < 0.5] = -0.0
    elif kind == "nanpayload":
        bits = x.view(np.uint64).copy()
        mask = rng.random((T, N)) < 0.5
        payload = rng.integers(1, 2 ** 51, size=(T, N), dtype=np.uint64)
        sign = rng.integers(0, 2, size=(T, N), dtype=np.uint64) << np.uint64(63)
        nanbits = np.uint64(0x7FF0000000000000) | payload | sign
        bits[mask] = nanbits[mask]
        x = bits.view(np.float64)
    elif kind == "denormal":
        x = x * 5e-324 * 1000
    elif kind == "int":
        x = rng.integers(-1000, 1000, size=(T, N))
    elif kind == "float32":
        x = x.astype(np.float32)
    elif kind == "colslice":
        wide = rng.normal(size=(T, N + 3))
        x = wide[:, :N]                       # dense rows, but the next row is N+3 items away
    elif kind == "rowstep":
        tall = rng.normal(size=(2 * T, N))
        x = tall[::2]                         # unit column stride, every second row
    elif kind == "mixed":
        x[rng.random((T, N)) < 0.1] = np.nan
        x[rng.random((T, N)) < 0.1] = -0.0
        x = np.asfortranarray(x)
    return x


HELD = []   # results handed out earlier (object, bit snapshot): later calls must not change them


def verify_held(res, case):
    for arr, bits0, desc in HELD:
        if arr.shape != bits0.shape or not np.array_equal(st.bits(np.asarray(arr, dtype=np.float64)), bits0):
            res.violation("a stacked array returned by an earlier call (%s) changed when a later call was made" % (desc,), case)
            del HELD[:]
            return
    res.count("earlier_results_rechecked", len(HELD))


def hold(arr, desc):
    if isinstance(arr, np.ndarray):
        HELD.append((arr, st.bits(np.asarray(arr, dtype=np.float64)).copy(), desc))
        del HELD[:-5]


def check_single(res, dp, x, W, case):
    T, N = x.shape
    before = np.array(x, copy=True)
    try:
        out = dp.stack_training_data(x, W)
    except Exception as e:
        res.violation("stack_training_data raised %s: %s (T=%d N=%d W=%d)" % (type(e).__name__, e, T, N, W), case)
        return None
    res.evaluations += 1
    ref = st.stack_ref(x, W)
    if out.shape != (T - W + 1, N * W):
        res.violation("stacked shape %s, expected %s" % (out.shape, (T - W + 1, N * W)), case)
        return None
    if out.dtype != np.float64:
        res.count("non_float64_output")
        eq = np.array_equal(np.asarray(out, dtype=np.float64), ref, equal_nan=True)
    else:
        eq = np.array_equal(st.bits(out), st.bits(ref))
    if not eq:
        bad = np.argwhere(st.bits(np.asarray(out, dtype=np.float64)) != st.bits(ref))
        i, c = (int(bad[0][0]), int(bad[0][1])) if len(bad) else (-1, -1)
        res.violation("stacked[%d,%d] differs bit-wise from row %d of the input (T=%d N=%d W=%d, %d cells differ)" % (
            i, c, i + (c // N if N else 0), T, N, W, len(bad)), case)
    if not np.array_equal(st.bits(np.asarray(before, dtype=np.float64)), st.bits(np.asarray(x, dtype=np.float64))):
        res.violation("stack_training_data modified its input", case)
    verify_held(res, case)
    hold(out, "T=%d N=%d W=%d" % (T, N, W))
    return out


def run_grid(spec, res):
    from fast_ticc import data_preparation as dp
    rng = np.random.default_rng(spec["seed"])
    shapes = [(T, W, N) for W in range(1, 13) for N in range(1, 7) for T in range(W, W + 41)]
    mine = [s for k, s in enumerate(shapes) if k % spec["parts"] == spec["part"]]
    for si, (T, W, N) in enumerate(mine):
        for f in range(spec["fills"]):
            kind = FILLS[(si + f) % len(FILLS)] if spec["fills"] == 1 else FILLS[f % len(FILLS)]
            case = dict(what="grid", T=T, W=W, N=N, fill=kind, rng=[int(v) for v in spec["seed"]] + [si, f])
            x = fill(np.random.default_rng(case["rng"]), T, N, kind)
            check_single(res, dp, x, W, case)
            res.count("fill:" + kind)
        if W >= 2:
            res.nontriv("T%d-W%d-N%d" % (T, W, N))
        res.count("shapes_under_python_O" if spec.get("env") else "shapes")
    res.sample(dict(what="grid", first_shapes=mine[:5], fills=spec["fills"]))


def make_multi(case):
    rng = np.random.default_rng(case["rng"])
    N, W = case["N"], case["W"]
    return [fill(rng, T, N, k) for T, k in zip(case["Ts"], case["fills"])]


def check_multi(res, dp, case):
    series = make_multi(case)
    W, N = case["W"], case["N"]
    rng = np.random.default_rng(case["rng"] + [1])
    try:
        out = dp.stack_training_data_multiple_series(list(series), W)
    except Exception as e:
        res.violation("stack_training_data_multiple_series raised %s: %s" % (type(e).__name__, e), case)
        return
    res.evaluations += 1
    ref = np.vstack([st.stack_ref(s, W) for s in series])
    if out.shape != ref.shape or not np.array_equal(st.bits(np.asarray(out, dtype=np.float64)), st.bits(ref)):
        res.violation("multi-series stacking is not the concatenation of the individual stackings (Ts=%s W=%d N=%d, dtypes %s)" % (
            case["Ts"], W, N, [str(s.dtype) for s in series]), case)
    # the individual stackings, held side by side, must also still be themselves after the joint call
    singles = [dp.stack_training_data(s, W) for s in series]
    for s_, single in zip(series, singles):
        if not np.array_equal(st.bits(np.asarray(single, dtype=np.float64)), st.bits(st.stack_ref(s_, W))):
            res.violation("individual stackings held side by side alias each other (Ts=%s W=%d)" % (case["Ts"], W), case)
            break
    verify_held(res, case)
    hold(out, "multi Ts=%s W=%d" % (case["Ts"], W))
    lens = [s.shape[0] - W + 1 for s in series]
    K = 4
    per = [[int(v) for v in rng.integers(0, K, size=L)] for L in lens]
    joint = [v for lst in per for v in lst]
    try:
        parts = dp.split_joint_labels(list(joint), list(lens))
    except Exception as e:
        res.violation("split_joint_labels raised %s: %s" % (type(e).__name__, e), case)
        return
    if [list(p) for p in parts] != per:
        res.violation("split_joint_labels(%s) does not restore the per-series lists" % lens, case)
        return
    for s, p, orig in zip(series, parts, per):
        padded = dp.pad_missing_labels(list(p), W)
        front = (W - 1) // 2
        back = (W - 1) - front
        exp = [-1] * front + orig + [-1] * back
        if list(padded) != exp or len(padded) != s.shape[0]:
            res.violation("pad(split(concat)) does not restore the series: len %d vs %d rows, W=%d" % (len(padded), s.shape[0], W), case)
            return
    if len(series) >= 2:
        res.nontriv(common.h(case["Ts"], W, N, case["rng"]))


def run_multi(spec, res):
    from fast_ticc import data_preparation as dp
    rng = np.random.default_rng(spec["seed"])
    for i in range(spec["n"]):
        W = int(rng.integers(1, 13))
        N = int(rng.integers(1, 7))
        ns = int(rng.integers(1, 7))
        Ts = [int(W + rng.integers(0, 25)) for _ in range(ns)]
        if rng.random() < 0.3:
            Ts[int(rng.integers(0, ns))] = W  # a series with exactly one window
        if rng.random() < 0.25:
            Ts = [Ts[0]] * ns                 # all series of identical shape (a tempting "fast path")
            res.count("equal_shape_tuples")
        fills = [FILLS[int(rng.integers(0, 5))] for _ in range(ns)]
        if rng.random() < 0.3:
            fills[0] = ["float32", "int"][int(rng.integers(0, 2))]     # a narrower first series must not narrow the later ones
            res.count("tuples_with_mixed_dtypes")
        case = dict(what="multi", W=W, N=N, Ts=Ts, fills=fills, rng=[int(v) for v in spec["seed"]] + [i])
        check_multi(res, dp, case)
        if i == 0:
            res.sample(case)


def run_frontend(spec, res):
    """The array the front end actually hands to the main loop, for one buffer viewed under several shapes in one process."""
    from ticcmon import e2e, e2e_check
    rng = np.random.default_rng(spec["seed"])
    cases = []
    for i in range(spec["n"]):
        total = int(rng.choice([72, 96, 120]))
        seed = int(rng.integers(0, 2 ** 31))
        shapes = [(total // n_, n_) for n_ in (2, 3, 4, 6, 1)]
        rng.shuffle(shapes)
        for (T, N) in shapes[:4]:
            cases.append(dict(front="single", data=dict(gen="reshape", seed=seed, total=total, T=T, N=N), W=2, K=2,
                              beta=dict(form="float", value=1.0), lam=dict(form="float", value=0.5), m=2, limit=1, biased=True, eps=0.0,
                              nproc=1, mp=False, rng_seed=1, init=dict(kind="alternating")))
    e2e_check.run_cases(res, cases, ("C10",), lambda run, I: "f", coverage_props=())
    res.count("frontend_reshape_runs", len(cases))


def run_large(spec, res):
    """Shapes far beyond the small grid (size-threshold code paths): long series, many sensors, wide windows."""
    from fast_ticc import data_preparation as dp
    rng = np.random.default_rng(spec["seed"])
    shapes = [(1000, 1, 1), (1024, 3, 2), (5000, 2, 7), (20000, 1, 3), (4097, 8, 5), (300, 64, 2), (257, 130, 1), (600, 6, 40), (70, 3, 64),
              (65537, 1, 2), (2049, 17, 9)]
    for si, (T, N, W) in enumerate(shapes):
        if si % spec["parts"] != spec["part"]:
            continue
        kind = FILLS[si % 5]
        case = dict(what="grid", T=T, W=W, N=N, fill=kind, rng=[int(v) for v in spec["seed"]] + [si, 0])
        check_single(res, dp, fill(np.random.default_rng(case["rng"]), T, N, kind), W, case)
        res.count("large_shapes")
        res.nontriv("L-T%d-W%d-N%d" % (T, W, N))
    if spec["part"] == 0:
        case = dict(what="multi", W=5, N=3, Ts=[1200, 5, 3000, 777, 5, 2048], fills=["random", "negzero", "random", "nanpayload", "inf", "random"],
                    rng=[int(v) for v in spec["seed"]] + [99])
        check_multi(res, dp, case)
        res.count("large_shapes")


def run_shard(spec, res):
    if spec["what"] == "large":
        run_large(spec, res)
        return
    if spec["what"] == "frontend":
        run_frontend(spec, res)
        return
    if spec["what"] == "grid":
        run_grid(spec, res)
    else:
        run_multi(spec, res)


def replay(case, res):
    if case.get("front"):
        from ticcmon import e2e_check
        e2e_check.replay_case(res, case, ("C10",))
        return
    from fast_ticc import data_preparation as dp
    if case["what"] == "grid":
        x = fill(np.random.default_rng(case["rng"]), case["T"], case["N"], case["fill"])
        check_single(res, dp, x, case["W"], case)
    else:
        check_multi(res, dp, case)


def finalize(merged, tier):
    out = {"inconclusive": []}
    shapes = merged["counters"].get("shapes", 0)
    out["exhaustive"] = False
    out["shape_grid_complete"] = shapes == 2952
    if shapes != 2952:
        out["inconclusive"].append("shape grid incomplete: %d of 2952" % shapes)
    for key, least in (("large_shapes", 12), ("frontend_reshape_runs", 12), ("tuples_with_mixed_dtypes", 50), ("earlier_results_rechecked", 5000)):
        if merged["counters"].get(key, 0) < least:
            out["inconclusive"].append("monitor counter %s=%d below %d" % (key, merged["counters"].get(key, 0), least))
    return out
