"""C16 - the Bayesian information criterion matches its definition."""
from ticcmon import e2e_check
from ticcmon.checks import e2e_common as ec

LEVEL = "exploration"
RULE = ("reported BIC of every completed traced run vs the definition recomputed from the captured final model (runs with one run of labels, "
        "alternating runs, unused clusters, hostile scales); non-trivial = completed run whose labelling has >=2 maximal runs of equal labels; "
        "distinct by case hash")
ASSUMPTIONS = ["final model captured by wrapping the metric function; slogdet-based reference"]
SHARD_TIMEOUT = {"quick": 900, "thorough": 3400}
MIX = {"single:small": 3, "single:general": 3, "single:hostile": 2, "single:empty_final": 1, "joint:joint": 1}
PROPS = ("C16",)


def plan(tier, seed):
    specs = ec.plan_e2e(seed, 16, MIX, 160 if tier == "quick" else 1600, nwcap=12 if tier == "quick" else 24)
    if tier == \"thorough\":
        specs += ec.fixture_specs()
    return specs


def nontrivial(run, I):
    return "b" if I.counts.get("bic_checked", 0) and I.counts.get("rounds", 0) >= 1 else None


def run_shard(spec, res):
    ec.run_e2e_shard(spec, res, PROPS, nontrivial)


def replay(case, res):
    e2e_check.replay_case(res, case, PROPS)


def finalize(merged, tier):
    out = {"inconclusive": []}
    ec.min_counter(merged, out, "bic_checked", 70 if tier == "quick" else 700)
    ec.unexpected(merged, out)
    return out
