"""C16 - the Bayesian information criterion matches its definition."""
import math

import numpy as np

from ticcmon import e2e_check
from ticcmon.checks import common, e2e_common as ec
from ticcmon.oracles import gauss, metrics

LEVEL = "exploration"
RULE = ("reported BIC of every completed traced run vs the definition recomputed from the captured final model (runs with one run of labels, "
        "alternating runs, unused clusters, hostile scales); non-trivial = completed run whose labelling has >=2 maximal runs of equal labels; "
        "distinct by case hash")
ASSUMPTIONS = ["final model captured by wrapping the metric function; slogdet-based reference"]
SHARD_TIMEOUT = {"quick": 300, "thorough": 3400}
MIX = {"single:small": 3, "single:general": 3, "single:hostile": 2, "single:empty_final": 1, "joint:joint": 1}
PROPS = ("C16",)


def plan(tier, seed):
    specs = ec.plan_e2e(seed, 16, MIX, 140 if tier == "quick" else 1600, nwcap=12 if tier == "quick" else 24)
    for p, n in enumerate(common.split_counts(200 if tier == "quick" else 3000, 4 if tier == "quick" else 12)):
        specs.append(dict(name="synth-%d" % p, mode="interp", what="synth", n=n, seed=[seed, 161, p]))
    if tier == "thorough":
        specs += ec.fixture_specs()
    # the same work in an interpreter started with -O (assert statements compiled away)
    byname = {sp["name"]: sp for sp in specs}
    if 'synth-0' in byname:
        specs.append(common.under_O(byname['synth-0'], **{}))
    return specs


def nontrivial(run, I):
    return "b" if I.counts.get("bic_checked", 0) and I.counts.get("rounds", 0) >= 1 else None


def build_state(case):
    """Synthetic final state: SPD MRFs over 14 orders of magnitude of scale, entries straddling the 2e-5 threshold."""
    from fast_ticc.containers import model_state as ms, arguments
    rng = np.random.default_rng(case["rng"])
    nw, W, K, T = case["nw"], case["W"], case["K"], case["T"]
    pat = case["pattern"]
    if pat == "one_run":
        labels = [int(rng.integers(0, K))] * T
    elif pat == "alternating":
        labels = [i % K for i in range(T)]
    elif pat == "unused":
        used = max(1, K - 1 - int(rng.integers(0, max(1, K - 1))))
        labels = [int(v) for v in rng.integers(0, used, size=T)]
    elif pat == "blocks":
        labels = [min(K - 1, (i * K) // T) for i in range(T)]
    else:
        labels = [int(v) for v in rng.integers(0, K, size=T)]
    args = arguments.UserArguments(0.1, 20, 1.0, 2, 0, K, 1, W, False)
    st = ms.ModelState.empty_model(args, np.zeros((T, nw)))
    st.point_labels = labels
    for c in st.clusters:
        A = rng.normal(size=(nw, nw)) / math.sqrt(nw)
        th = (A @ A.T + 0.1 * np.eye(nw)) * case["scale"]
        if case["straddle"]:
            # off-diagonal entries just below / just above / exactly at the parameter-count threshold
            iu = np.triu_indices(nw, 1)
            pick = rng.random(len(iu[0])) < 0.5
            vals = rng.choice([2e-5 * (1 - 1e-6), 2e-5 * (1 + 1e-6), 2e-5, -2e-5 * (1 + 1e-3), 1.9e-5, 0.0], size=len(iu[0]))
            th[iu[0][pick], iu[1][pick]] = vals[pick]
            th[iu[1][pick], iu[0][pick]] = vals[pick]
            th[np.diag_indices(nw)] = np.abs(th).sum(axis=1) + 1e-3     # keep it diagonally dominant, hence SPD
        c.train_inverse = (th + th.T) / 2
        B = rng.normal(size=(nw, max(1, nw // (1 + int(rng.integers(0, 3))))))
        c.empirical_covariance = (B @ B.T / nw) * case["cov_scale"]
        if case.get("tiny_variable") and nw >= 2:
            # one variable ~1e-130 times smaller than the others: its products with Theta are subnormal or underflow to 0
            sc = np.ones(nw)
            v = int(rng.integers(0, nw))
            sc[v] = 1e-170
            with np.errstate(all="ignore"):
                c.empirical_covariance = c.empirical_covariance * sc[:, None] * sc[None, :]
            # ... and the MRF couples it to the others only through minute (but non-zero) entries: Theta_vj * S_vj ~ 1e-320
            th = np.array(c.train_inverse, copy=True)
            keep = th[v, v]
            th[v, :] = 1e-150
            th[:, v] = 1e-150
            th[v, v] = keep
            c.train_inverse = th
        c.stacked_data_mean = np.zeros(nw)
    return st, labels


def check_synth(res, case):
    from fast_ticc import cluster_metrics as cmx
    st, labels = build_state(case)
    ths = [np.array(c.train_inverse, copy=True) for c in st.clusters]
    covs = [np.array(c.empirical_covariance, copy=True) for c in st.clusters]
    try:
        got = float(cmx.bayesian_information_criterion(st))
    except Exception as e:
        res.violation("bayesian_information_criterion raised %s: %s (NW=%d scale=%g)" % (type(e).__name__, str(e)[:150], case["nw"], case["scale"]), case)
        return
    res.evaluations += 1
    ref = metrics.bic_def(labels, ths, covs)
    lds = [float(np.linalg.slogdet(t)[1]) for t in ths]
    absprod = sum(float(np.sum(np.abs(t) * np.abs(s_.T))) for t, s_ in zip(ths, covs))
    tol = 1e-9 * (abs(ref) + 2 * sum(abs(v) for v in lds)) + 64 * gauss.EPS * case["nw"] * 2 * absprod + 1e-9
    res.count("synthetic_states_checked")
    res.maxi("abs_logdet", int(max(abs(v) for v in lds)))
    if not np.isfinite(got):
        res.violation("BIC is %r for positive-definite MRFs (NW=%d, log-determinants %s)" % (got, case["nw"], [round(v) for v in lds][:3]), case)
    elif abs(got - ref) > tol:
        res.violation("synthetic final state (NW=%d, pattern %s, straddle=%s): reported BIC %r, definition %r (diff %.3g, tol %.3g)" % (
            case["nw"], case["pattern"], case["straddle"], got, ref, got - ref, tol), case)
    for t0, c in zip(ths, st.clusters):
        if not np.array_equal(t0, c.train_inverse):
            res.violation("bayesian_information_criterion modified the model", case)
    if len(set(labels)) >= 2 or case["straddle"]:
        res.nontriv(common.h(case))
    if case["straddle"]:
        res.count("states_straddling_threshold")
    if case.get("tiny_variable"):
        res.count("states_with_a_tiny_variable")


def run_synth(spec, res):
    rng = np.random.default_rng(spec["seed"])
    for i in range(spec["n"]):
        nw, W = [(1, 1), (2, 1), (5, 5), (12, 3), (40, 10), (100, 10), (200, 10), (6, 2)][int(rng.integers(0, 8))]
        case = dict(what="synth", rng=[int(v) for v in spec["seed"]] + [i], nw=nw, W=W, K=int(rng.integers(1, 6)),
                    T=int(rng.integers(2, 120)) if i % 8 else int(rng.choice([4999, 5000, 5001, 9000, 20000])),
                    pattern=["one_run", "alternating", "unused", "blocks", "random"][int(rng.integers(0, 5))],
                    scale=float(rng.choice([1e-7, 1e-3, 1.0, 1e3, 1e7])), cov_scale=float(10 ** rng.uniform(-6, 6)),
                    straddle=bool(rng.random() < 0.4), tiny_variable=bool(i % 5 == 2))
        check_synth(res, case)
        if i == 0:
            res.sample(case)


def run_shard(spec, res):
    if spec["what"] == "synth":
        run_synth(spec, res)
    else:
        ec.run_e2e_shard(spec, res, PROPS, nontrivial)


def replay(case, res):
    if case.get("what") == "synth":
        check_synth(res, case)
    else:
        e2e_check.replay_case(res, case, PROPS)


def finalize(merged, tier):
    out = {"inconclusive": []}
    ec.min_counter(merged, out, "bic_checked", 60 if tier == "quick" else 700)
    ec.min_counter(merged, out, "synthetic_states_checked", 150 if tier == "quick" else 2500)
    ec.min_counter(merged, out, "states_straddling_threshold", 40 if tier == "quick" else 600)
    ec.min_counter(merged, out, "states_with_a_tiny_variable", 25 if tier == "quick" else 400)
    ec.unexpected(merged, out)
    return out
