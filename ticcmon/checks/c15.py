"""C15 - Numba acceleration is semantically transparent (modes x thread counts)."""
import os

import numpy as np

from ticcmon import e2e
from ticcmon.checks import common, c05
from ticcmon.oracles import digest as dg, gauss
from ticcmon.workloads import cases as wc

LEVEL = "exploration"
RULE = ("one corpus (labelling tables x beta forms x layouts; synthetic likelihood models; complete single/joint runs) evaluated in four separate "
        "interpreters: JIT, JIT+boundscheck, JIT disabled, Numba not importable; labelling: labels equal and cost bit-identical; likelihood "
        "tables within the rounding bound across modes and bit-identical across thread counts {1,2,4,8,16} and 20 repeats at 16 threads; "
        "complete runs: equal labels; non-trivial = corpus item on which >=3 modes produced an output that was compared; distinct by item id")
ASSUMPTIONS = ["NUMBA_BOUNDSCHECK=1 is the only memory sanitizer available for JIT-compiled kernels",
               "inputs restricted to dtypes/layouts the public API can deliver to a kernel"]
SHARD_TIMEOUT = {"quick": 300, "thorough": 3400}
MODES = ["jit", "jit_bc", "interp", "nonumba"]


def plan(tier, seed):
    q = tier == "quick"
    specs = []
    for mode in MODES:
        specs.append(dict(name="kern-" + mode, mode=mode, what="kernels", seed=seed, nlab=120 if q else 1500, nlik=16 if q else 120))
        for p in range(2 if q else 6):
            specs.append(dict(name="runs-%s-%d" % (mode, p), mode=mode, what="runs", seed=seed, part=p, n=3 if q else 6))
    specs.append(dict(name="threads", mode="jit", what="threads", seed=seed, env={"NUMBA_NUM_THREADS": "16", "OMP_NUM_THREADS": "1"},
                      repeats=20 if q else 60))
    return specs


def label_item(seed, i):
    rng = np.random.default_rng([seed, 15, i])
    T = int(rng.integers(1, 60))
    K = int(rng.integers(1, 7))
    cls = ["gauss", "smallint", "mixedmag", "ties"][i % 4]
    special = None
    if i % 10 == 9 and T >= 2 and K >= 2:
        special = ["nan_cell", "nan_col", "inf_cell", "neginf_cell", "nan_row"][(i // 10) % 5]
    if cls == "gauss":
        C = rng.normal(size=(T, K)) * 10
    elif cls == "smallint":
        C = rng.integers(0, 4, size=(T, K)).astype(np.float64)
    elif cls == "mixedmag":
        C = rng.normal(size=(T, K)) * 10 ** rng.uniform(-5, 8, size=(T, K))
    else:
        C = np.round(rng.normal(size=(T, K)))
    if special == "nan_cell":
        C[int(rng.integers(0, T)), int(rng.integers(1, K))] = np.nan
    elif special == "nan_col":
        C[:, int(rng.integers(1, K))] = np.nan
    elif special == "inf_cell":
        C[int(rng.integers(0, T)), int(rng.integers(0, K))] = np.inf
    elif special == "neginf_cell":
        C[int(rng.integers(0, T)), int(rng.integers(0, K))] = -np.inf
    elif special == "nan_row":
        C[int(rng.integers(0, T)), :] = np.nan
    lay = ["C", "C", "F", "readonly"][(i // 4) % 4]
    if lay == "F":
        C = np.asfortranarray(C)
    elif lay == "readonly":
        C.flags.writeable = False
    form = ["float", "vector", "intvec", "zero", "float", "vector"][(i // 16) % 6]
    if form == "float":
        beta = float(rng.uniform(0, 5))
    elif form == "zero":
        beta = 0.0
    elif form == "vector":
        beta = rng.uniform(0, 5, size=T)
        beta[rng.random(T) < 0.2] = 0
    else:
        beta = rng.integers(0, 4, size=T)
    return C, beta


def lik_item(seed, i):
    rng = np.random.default_rng([seed, 151, i])
    nw, W = [(1, 1), (2, 1), (5, 5), (12, 3), (40, 10), (100, 10), (6, 2), (200, 10)][i % 8]
    d = dict(rng=[seed, 152, i], nw=nw, W=W, K=int(rng.integers(1, 5)), T=int(rng.integers(1, 30)),
             scale=[1e-7, 1e-3, 1.0, 1e3, 1e7][i % 5], spread=float(rng.choice([0.1, 1.0, 50.0])), layout=["C", "F"][(i // 8) % 2],
             theta="dense", dtype=[None, None, None, "int64", "float32"][i % 5] if nw <= 12 else None)
    # a missing / overflowed sample in the data being scored: the table has non-finite entries, which every mode must place alike
    d["poison"] = [None, "nan", None, "inf", None, None, "neginf", None][(i // 3) % 8] if d["dtype"] is None else None
    return d


def run_item(seed, part, j):
    rng = np.random.default_rng([seed, 153, part, j])
    wc.NW_CAP[0] = 8
    case = wc.gen_joint(rng, "joint") if j % 3 == 2 else wc.gen_single(rng, "small")
    case["data"]["flavor"] = ["plain", "float32", "fortran", "readonly", "strided", "int"][(j + 3 * part) % 6]
    case["data"]["n_reg"] = case["K"]
    case["data"]["seg"] = 8
    case["biased"] = True
    case["limit"] = 20
    case["eps"] = 0.0
    if case["beta"]["form"].startswith("vector") and case["front"] == "joint":
        case["beta"] = dict(form="float", value=5.0)
    return case


def run_shard(spec, res):
    mode = spec["mode"]
    st = common.numba_state()
    res.counters["numba_state_" + mode] = str(st)
    if mode == "nonumba" and st["NUMBA_AVAILABLE"]:
        res.inconclusive.append("Numba-absent shard but fast_ticc reports NUMBA_AVAILABLE")
    if mode in ("jit", "jit_bc") and (not st["NUMBA_AVAILABLE"] or st.get("DISABLE_JIT")):
        res.inconclusive.append("JIT shard but JIT is not active: %s" % st)
    if mode == "jit_bc" and not st.get("BOUNDSCHECK"):
        res.inconclusive.append("bounds-check shard but NUMBA_BOUNDSCHECK is off")
    if spec["what"] == "kernels":
        run_kernels(spec, res, mode)
    elif spec["what"] == "runs":
        run_runs(spec, res, mode)
    else:
        run_threads(spec, res)


def run_kernels(spec, res, mode):
    from fast_ticc import cluster_label_assignment as cla, likelihood as lk, numba_guard
    seed = spec["seed"]
    out = {}
    for i in range(spec["nlab"]):
        C, beta = label_item(seed, i)
        try:
            labels, cost = cla.assign_point_cluster_labels(label_assignment_cost=C, label_switching_cost=beta)
            out["lab%d" % i] = dict(labels=[int(v) for v in labels], cost=np.float64(cost))
        except Exception as e:
            out["lab%d" % i] = dict(exc="%s: %s" % (type(e).__name__, str(e)[:100]))
        res.evaluations += 1
    for i in range(spec["nlik"]):
        d = lik_item(seed, i)
        st, X = c05.make_model(d)
        if d.get("poison"):
            X = np.array(X, dtype=np.float64, order="K")
            X[X.shape[0] // 2, (i * 7) % X.shape[1]] = {"nan": np.nan, "inf": np.inf, "neginf": -np.inf}[d["poison"]]
            res.count("likelihood_items_with_a_non_finite_sample")
        try:
            tab = np.asarray(lk.all_points_all_clusters_log_likelihood(st, X), dtype=np.float64)
            out["lik%d" % i] = dict(table=tab)
        except Exception as e:
            out["lik%d" % i] = dict(exc="%s: %s" % (type(e).__name__, str(e)[:100]))
        res.evaluations += 1
    res.counters["out"] = {mode: out}
    if mode == "nonumba":
        # the fallback decorators themselves
        calls = []

        @numba_guard.njit()
        def f(a):
            calls.append(a)
            return a + 1

        @numba_guard.njit(parallel=True)
        def g(n):
            return [i for i in numba_guard.prange(2, n)]
        ok = f(1) == 2 and calls == [1] and g(5) == [2, 3, 4] and list(numba_guard.prange(3)) == [0, 1, 2]
        res.count("fallback_decorators_exercised")
        if not ok:
            res.violation("no-Numba fallback decorators do not behave like njit/prange (f(1)=%r calls=%r g(5)=%r)" % (f(1), calls, g(5)), dict(what="fallback"))
    if mode in ("jit", "jit_bc"):
        if not common.dispatcher_compiled(cla.assign_point_cluster_labels) or not common.dispatcher_compiled(lk.all_points_all_clusters_log_likelihood_fast):
            res.inconclusive.append("kernels were not compiled in mode %s" % mode)
        else:
            res.counters["signatures_" + mode] = len(cla.assign_point_cluster_labels.signatures) + len(lk.all_points_all_clusters_log_likelihood_fast.signatures)
    res.sample(dict(mode=mode, first_label_item=dict(table=label_item(seed, 0)[0], beta=label_item(seed, 0)[1])))


def run_runs(spec, res, mode):
    out = {}
    for j in range(spec["n"]):
        case = run_item(spec["seed"], spec["part"], j)
        run = e2e.run_case(case)
        res.evaluations += 1
        key = "run%d_%d" % (spec["part"], j)
        if run.exc is not None:
            out[key] = dict(exc=type(run.exc).__name__)
        else:
            pl = run.result.point_labels
            flat = [int(v) for lst in pl for v in lst] if len(pl) and isinstance(pl[0], (list, tuple)) else [int(v) for v in pl]
            out[key] = dict(labels=flat, cost=np.float64(run.result.label_assignment_cost), case=case)
    res.counters["out"] = {mode: out}


def run_threads(spec, res):
    import numba
    from fast_ticc import likelihood as lk
    rng = np.random.default_rng([spec["seed"], 154])
    nw, W, K = 6, 2, 6
    mus = rng.normal(size=(K, nw))
    ths = np.array([(lambda A: A @ A.T / nw + 0.2 * np.eye(nw))(rng.normal(size=(nw, nw))) for _ in range(K)])
    lds = np.array([np.linalg.slogdet(t)[1] for t in ths])
    res.counters["numba_threads_available"] = int(numba.config.NUMBA_NUM_THREADS)
    counts = [n for n in (1, 2, 3, 4, 5, 7, 8, 11, 16) if n <= numba.config.NUMBA_NUM_THREADS]
    seen = []
    heights = [1, 2, 5, 9, 17, 18, 37, 101, 1000, 4000, 4001]
    variants = [(T, "distinct") for T in heights] + [(T, "runs") for T in (64, 1000, 4001)]
    for T, kind in variants:
        X = rng.normal(size=(T, nw)) * 3
        if kind == "runs":
            # long runs of identical consecutive windows (a sensor holding its value): every block boundary of a static schedule
            # falls inside a run
            X = np.repeat(X[:max(1, T // 37 + 1)], 37, axis=0)[:T]
        refo = gauss.gauss_table(X, list(mus), list(ths))
        bnd = gauss.table_bound(X, list(mus), list(ths))
        ref = None
        for n in counts:
            numba.set_num_threads(n)
            tab = lk.all_points_all_clusters_log_likelihood_fast(W, K, mus, ths, lds, X)
            res.evaluations += 1
            if ref is None:
                ref = tab.copy()
            elif not np.array_equal(tab.view(np.uint64), ref.view(np.uint64)):
                res.violation("likelihood table (%d points) differs bit-wise between 1 and %d threads (%d entries)" % (T, n, int((tab != ref).sum())),
                              dict(what="threads", n=n, T=T))
            if np.any(np.abs(tab - refo) > bnd):
                res.violation("likelihood table (%d points, %d threads) deviates from the Gaussian log-density beyond the rounding bound "
                              "(%d entries, e.g. row %d)" % (T, n, int((np.abs(tab - refo) > bnd).sum()), int(np.argmax(np.max(np.abs(tab - refo), axis=1)))),
                              dict(what="threads", n=n, T=T))
            if n not in seen:
                seen.append(n)
            res.nontriv("threads%d-T%d" % (n, T))
    T = 4000
    X = rng.normal(size=(T, nw)) * 3
    numba.set_num_threads(1)
    ref = lk.all_points_all_clusters_log_likelihood_fast(W, K, mus, ths, lds, X).copy()
    numba.set_num_threads(max(counts))
    for rep in range(spec["repeats"]):
        tab = lk.all_points_all_clusters_log_likelihood_fast(W, K, mus, ths, lds, X)
        res.evaluations += 1
        if not np.array_equal(tab.view(np.uint64), ref.view(np.uint64)):
            res.violation("likelihood table differs between repeats at %d threads (repeat %d)" % (max(counts), rep), dict(what="threads", n=max(counts)))
            break
    refo = gauss.gauss_table(X, list(mus), list(ths))
    bnd = gauss.table_bound(X, list(mus), list(ths))
    if np.any(np.abs(ref - refo) > bnd):
        res.violation("threaded likelihood table deviates from the Gaussian log-density beyond the rounding bound", dict(what="threads", n=1))
    res.counters["thread_counts_compared"] = seen
    if len(seen) < 4:
        res.inconclusive.append("only thread counts %s available" % seen)
    res.sample(dict(what="threads", table_heights=heights, thread_counts=seen, repeats=spec["repeats"]))


def replay(case, res):
    res.inconclusive.append("C15 compares interpreters; re-run ./check C15 to reproduce (%r)" % (case,))


def finalize(merged, tier):
    out = {"inconclusive": [], "violations": [], "nontrivial": []}
    outs = merged["counters"].get("out", {})
    missing = [m for m in MODES if m not in outs]
    if missing:
        out["inconclusive"].append("no output from modes %s" % missing)
        return out
    items = sorted(set(k for m in MODES for k in outs[m]))
    compared = 0
    for it in items:
        vals = {m: outs[m].get(it) for m in MODES if outs[m].get(it) is not None}
        if len(vals) < 3:
            continue
        ref_mode = "interp"
        ref = vals.get(ref_mode)
        if ref is None:
            continue
        for m, v in vals.items():
            if m == ref_mode:
                continue
            if ("exc" in v) != ("exc" in ref):
                out["violations"].append({"msg": "%s: mode %s %s but mode %s %s" % (
                    it, m, "raised " + v["exc"] if "exc" in v else "returned", ref_mode, "raised " + ref["exc"] if "exc" in ref else "returned"),
                    "case": {"item": it}})
                continue
            if "exc" in v:
                continue
            if it.startswith("lab"):
                if list(v["labels"]) != list(ref["labels"]):
                    out["violations"].append({"msg": "%s: labels differ between %s and %s" % (it, m, ref_mode), "case": {"item": it}})
                elif np.float64(v["cost"]).tobytes() != np.float64(ref["cost"]).tobytes() and not (np.isnan(v["cost"]) and np.isnan(ref["cost"])):
                    out["violations"].append({"msg": "%s: cost %r (%s) vs %r (%s) not bit-identical" % (it, float(v["cost"]), m, float(ref["cost"]), ref_mode),
                                              "case": {"item": it}})
            elif it.startswith("lik"):
                a, b = np.asarray(v["table"]), np.asarray(ref["table"])
                if a.shape != b.shape:
                    out["violations"].append({"msg": "%s: table shapes differ between %s and %s" % (it, m, ref_mode), "case": {"item": it}})
                else:
                    tol = 1e-9 * np.maximum(1.0, np.abs(b))
                    if not np.all(np.isfinite(a) == np.isfinite(b)) or np.any(np.abs(a - b)[np.isfinite(b)] > tol[np.isfinite(b)]):
                        out["violations"].append({"msg": "%s: likelihood tables differ between %s and %s beyond rounding (max %.3g)" % (
                            it, m, ref_mode, float(np.nanmax(np.abs(a - b)))), "case": {"item": it}})
            else:
                if list(v["labels"]) != list(ref["labels"]):
                    out["violations"].append({"msg": "%s: complete run returns different labels in mode %s and %s" % (it, m, ref_mode),
                                              "case": {"item": it, "case": ref.get("case")}})
            compared += 1
        out["nontrivial"].append(it)
    out["items_compared_pairs"] = compared
    if compared < (300 if tier == "quick" else 3000):
        out["inconclusive"].append("only %d cross-mode comparisons" % compared)
    runs_done = sum(1 for it in items if it.startswith("run") and all("labels" in (outs[m].get(it) or {}) for m in MODES))
    out["complete_runs_compared_in_all_modes"] = runs_done
    if runs_done < (3 if tier == "quick" else 20):
        out["inconclusive"].append("only %d complete runs finished in all four modes" % runs_done)
    merged["counters"].pop("out", None)     # bulky; summarised above
    return out
