"""C18 - equivalent parameter forms give identical results (bitwise)."""
import hashlib

import numpy as np

from ticcmon import e2e
from ticcmon.checks import common
from ticcmon.oracles import digest as dg
from ticcmon.workloads import cases as wc
from ticcmon.workloads import data as wd

LEVEL = "exploration"
RULE = ("equivalence classes of forms: lambda in {float, int, np.float64, np.float32, np.float16, np.longdouble, np.int64, constant NWxNW "
        "float64 matrix, constant float32 matrix}; beta in {int, float, NumPy scalars, constant vector}; eps likewise; at the optimiser entry "
        "point (random covariances, all (N,W) with NW<=20) and end to end (traced runs); values chosen exactly representable in every form of "
        "their class; non-trivial = a class in which >=2 forms completed and were compared; distinct by (problem hash, class)")
ASSUMPTIONS = ["0-d arrays are not NumPy scalars and are excluded", "digest = SHA-256 over raw bytes of every float/array field and the labels"]
SHARD_TIMEOUT = {"quick": 300, "thorough": 3400}

# values exactly representable in every form of the class
LAM_CLASSES = [
    (0.5, ["float", "np.float64", "np.float32", "np.float16", "np.longdouble", "matrix_const", "matrix_const_f32"]),
    (1, ["float", "int", "np.float64", "np.float32", "np.int64", "np.longdouble", "matrix_const", "np.uint8"]),
    (0, ["float", "int", "np.float64", "np.int32", "matrix_const"]),
    (0.11, ["float", "np.float64", "matrix_const", "np.longdouble"]),
    (0.7, ["float", "np.float64", "matrix_const"]),
    (0.109375, ["float", "np.float32", "np.float16", "matrix_const", "matrix_const_f32"]),
    (2, ["float", "int", "np.int64", "matrix_const"]),
    (float(np.float32(0.6)), ["float", "np.float32", "np.float64", "matrix_const", "matrix_const_f32"]),
    (float(np.float16(0.3)), ["float", "np.float16", "np.float32", "matrix_const", "matrix_const_f32"]),
]
BETA_CLASSES = [
    (5, ["float", "int", "np.float64", "np.float32", "np.float16", "np.int64", "np.longdouble", "vector_const", "vector_const_f32"]),
    (0, ["float", "int", "np.int32", "vector_const"]),
    (0.5, ["float", "np.float16", "np.float32", "vector_const", "np.longdouble"]),
    (50, ["int", "float", "np.uint8", "vector_const"]),
]
EPS_CLASSES = [
    (0, ["float", "int", "np.float64", "np.float32", "np.int64", "np.uint8"]),
    (0.0009765625, ["float", "np.float32", "np.float16", "np.float64", "np.longdouble"]),
    (1, ["float", "int", "np.uint8", "np.int64", "np.float32", "np.int32"]),
    (0.25, ["float", "np.float16", "np.float64"]),
]
F32_06 = float(np.float32(0.6))      # representable in float32, but k * value is not (k = 3, 5, 7)
F16_03 = float(np.float16(0.3))


def plan(tier, seed):
    q = tier == "quick"
    specs = []
    for p, n in enumerate(common.split_counts(48 if q else 700, 8 if q else 16)):
        specs.append(dict(name="entry-%d" % p, mode="interp", what="entry", n=n, seed=[seed, 18, p]))
    for p, n in enumerate(common.split_counts(24 if q else 240, 12 if q else 16)):
        specs.append(dict(name="e2e-%d" % p, mode="interp", what="e2e", n=n, seed=[seed, 188, p]))
    specs.append(dict(name="kernel-interp", mode="interp", what="kernel", n=600 if q else 6000, seed=[seed, 1888, 0]))
    specs.append(dict(name="kernel-jit", mode="jit", what="kernel", n=300 if q else 3000, seed=[seed, 1888, 1]))
    if not q:
        for p in range(2):
            specs.append(dict(name="e2e-jit-%d" % p, mode="jit", what="e2e", n=12, seed=[seed, 189, p]))
    else:
        specs.append(dict(name="e2e-jit", mode="jit", what="e2e", n=2, seed=[seed, 189, 0]))
    # the relabelling function (table, switching cost from the argument bundle, labelling kernel) under equivalent scalar forms
    specs.append(dict(name="relabel-interp", mode="interp", what="relabel", n=250 if q else 2500, seed=[seed, 18888, 0]))
    specs.append(dict(name="relabel-jit", mode="jit", what="relabel", n=60 if q else 600, seed=[seed, 18888, 1]))
    # the same work in an interpreter started with -O (assert statements compiled away)
    byname = {sp["name"]: sp for sp in specs}
    if 'entry-0' in byname:
        specs.append(common.under_O(byname['entry-0'], **{}))
    if 'kernel-interp' in byname:
        specs.append(common.under_O(byname['kernel-interp'], **{'n': 200}))
    return specs


def run_entry(spec, res):
    from fast_ticc import admm
    rng = np.random.default_rng(spec["seed"])
    for i in range(spec["n"]):
        while True:
            N, W = int(rng.integers(1, 5)), int(rng.integers(1, 8))
            if i % 2 == 0:
                W = int(rng.integers(5, 8))      # classes with 5, 6, 7 occurrences: k * value is not exact in narrow dtypes
            if N * W <= 20:
                break
        n = N * W
        kind = ["full", "rankdef", "diag", "samples", "toeplitz_var"][int(rng.integers(0, 5))]
        cd = dict(seed=int(rng.integers(0, 2 ** 31)), n=n, kind=kind, N=N, W=W, pts=int(rng.integers(2, 2 * n + 2)))
        S = wd.make_covariance(cd)
        value, forms = LAM_CLASSES[(i + int(spec["seed"][2])) % len(LAM_CLASSES)]
        case = dict(what="entry", cov=cd, N=N, W=W, value=value, forms=forms)
        check_entry(res, admm, case)
        if i == 0:
            res.sample(case)


def check_entry(res, admm, case):
    S = wd.make_covariance(case["cov"])
    N, W = case["N"], case["W"]
    out = {}
    # history: an earlier call with another matrix-valued weight of the same shape must not influence this one
    try:
        admm.admm_optimize_theta(S.copy(), np.full((N * W, N * W), float(case["value"]) + 0.25), W, N, max_iterations=5)
    except Exception:
        pass
    for form in case["forms"]:
        lam = wd.make_lambda(dict(form=form, value=case["value"]), N * W)
        try:
            th = np.asarray(admm.admm_optimize_theta(S.copy(), lam, W, N, max_iterations=300).theta, dtype=np.float64)
            out[form] = hashlib.sha256(th.tobytes()).hexdigest()[:16]
        except Exception as e:
            out[form] = "EXC:%s:%s" % (type(e).__name__, str(e)[:80])
        res.evaluations += 1
    _compare(res, out, "optimiser entry point, lambda=%r (N=%d W=%d %s)" % (case["value"], N, W, case["cov"]["kind"]), case)
    res.count("lambda_value:%r" % (case["value"],))


def _compare(res, out, label, case):
    vals = set(out.values())
    done = [f for f, v in out.items() if not v.startswith("EXC:")]
    if len(vals) > 1:
        ref_form = case["forms"][0]
        diff = {f: v for f, v in out.items() if v != out[ref_form]}
        res.violation("%s: forms disagree: %s=%s vs %s" % (label, ref_form, out[ref_form], dict(list(diff.items())[:3])), case)
    elif not done:
        res.skipped("all forms raised " + list(vals)[0][:40])
    if len(done) >= 2:
        res.nontriv(common.h(case))
        res.count("classes_compared")
        res.count("forms_compared", len(done))


def run_e2e(spec, res):
    rng = np.random.default_rng(spec["seed"])
    wc.NW_CAP[0] = 8
    for i in range(spec["n"]):
        base = wc.gen_single(rng, "small") if (i + int(spec["seed"][2])) % 5 else wc.gen_joint(rng, "joint")
        base["data"]["flavor"] = "plain"
        if (i + int(spec["seed"][2])) % 2:
            # sensors in very large / very small units (a rescaling step keyed on the data scale must treat both forms alike)
            base["data"]["flavor"] = "uniform_scale"
            base["data"]["scale"] = float(10.0 ** rng.choice([-5, -4, 4, 5]))
        base["data"]["n_reg"] = base["K"]
        base["data"]["seg"] = 8
        base["biased"] = True
        base["limit"] = int(rng.choice([2, 3, 20]))
        which = ["lam", "beta", "eps"][(i + int(spec["seed"][2])) % 3]
        rot = (i + int(spec["seed"][2])) // 3
        if which == "lam":
            value, forms = LAM_CLASSES[rot % len(LAM_CLASSES)]
        elif which == "beta":
            value, forms = BETA_CLASSES[rot % len(BETA_CLASSES)]
            # (the joint front end hands the caller's vector to the algorithm unchanged, so the vector forms are comparable there too)
        else:
            value, forms = EPS_CLASSES[rot % len(EPS_CLASSES)]
        base["beta"] = dict(form="float", value=float(BETAS_DEFAULT[i % len(BETAS_DEFAULT)]))
        base["lam"] = dict(form="float", value=0.11)
        base["eps"] = 0.0
        case = dict(what="e2e", base=base, which=which, value=value, forms=forms)
        check_e2e(res, case)
        if i == 0:
            res.sample(case)


BETAS_DEFAULT = [5.0, 1.0, 50.0]


def check_e2e(res, case):
    out = {}
    for form in case["forms"]:
        c = dict(case["base"])
        if case["which"] == "lam":
            c["lam"] = dict(form=form, value=case["value"])
        elif case["which"] == "beta":
            c["beta"] = dict(form=form, value=case["value"])
        else:
            c["eps"] = wd.SCALAR_FORMS[form](case["value"])
        run = e2e.run_case(c)
        res.evaluations += 1
        if run.exc is not None:
            out[form] = "EXC:%s" % run.exc_tag[:90]
        else:
            out[form] = dg.digest(run.result)[:16]
    _compare(res, out, "end to end, %s=%r (%s front end)" % (case["which"], case["value"], case["base"]["front"]), case)
    res.count("e2e_class:" + case["which"])


def run_kernel(spec, res):
    """Labelling step: a scalar switching cost and the vector filled with it must give the very same labels and cost, exact
    stay-versus-jump ties included (integer-valued tables)."""
    from fast_ticc import cluster_label_assignment as cla
    rng = np.random.default_rng(spec["seed"])
    for i in range(spec["n"]):
        T, K = int(rng.integers(2, 40)), int(rng.integers(2, 6))
        C = rng.integers(0, 4, size=(T, K)).astype(np.float64) if i % 4 else rng.normal(size=(T, K))
        b = float(rng.integers(0, 4))
        case = dict(what="kernel", rng=[int(v) for v in spec["seed"]] + [i], T=T, K=K)
        outs = {}
        for form, beta in (("float", b), ("int", int(b)), ("np.float64", np.float64(b)), ("vector_const", np.full(T, b)),
                           ("vector_const_int", np.full(T, int(b)))):
            try:
                labels, cost = cla.assign_point_cluster_labels(label_assignment_cost=C.copy(), label_switching_cost=beta)
                outs[form] = "%s|%r" % (",".join(str(int(v)) for v in labels), float(cost))
            except Exception as e:
                outs[form] = "EXC:%s" % type(e).__name__
            res.evaluations += 1
        if len(set(outs.values())) > 1:
            ref = outs["float"]
            res.violation("labelling step: scalar and filled-vector switching cost %g disagree on a %dx%d table: %s" % (
                b, T, K, {f: v[:60] for f, v in outs.items() if v != ref}), dict(case, table=C, beta=b))
        res.count("kernel_tables_compared")
        res.nontriv(common.h(C, b))


def run_relabel(spec, res):
    """predict_cluster_labels on one fitted state with the scalar switching cost given in every real scalar form: the labels and the
    bytes of the cost must not depend on the form (a form that slips through to the arithmetic - extended precision, float32 - shows in
    the last bits of the accumulated cost)."""
    from fast_ticc import cluster_label_assignment as cla
    from ticcmon.checks import c05
    rng = np.random.default_rng(spec["seed"])
    forms = ["float", "np.float64", "np.longdouble", "np.float32", "np.float16", "int", "np.int64"]
    for i in range(spec["n"]):
        W = int(rng.integers(1, 3))
        nw = W * int(rng.integers(1, 3))
        d = dict(rng=[int(v) for v in spec["seed"]] + [i], nw=nw, W=W, K=int(rng.integers(2, 5)), T=int(rng.integers(20, 90)), scale=1.0,
                 spread=1.0, layout="C", theta="dense")
        value = [5, 1, 3, 0.5, 2.5, 7][i % 6]          # representable in every form compared
        use = [f for f in forms if not (f in ("int", "np.int64") and value != int(value))]
        outs = {}
        for form in use:
            st, X = c05.make_model(d)
            st.arguments.label_switching_cost = wd.SCALAR_FORMS[form](value)
            try:
                new = cla.predict_cluster_labels(st, X)
                outs[form] = "%s|%s" % (",".join(str(int(v)) for v in new.point_labels), np.float64(new.label_assignment_cost).tobytes().hex())
            except Exception as e:
                outs[form] = "EXC:%s" % type(e).__name__
            res.evaluations += 1
        if len(set(outs.values())) > 1:
            ref = outs["float"]
            res.violation("relabelling function: switching cost %r gives different labels / cost bits in the forms %s than as a Python float" % (
                value, sorted(f for f, v in outs.items() if v != ref)), dict(what="relabel", rng=d["rng"]))
        res.count("relabel_classes_compared")
        res.nontriv("relabel-%d-%s" % (i, spec["mode"]))


def run_shard(spec, res):
    res.counters["numba_state"] = str(common.numba_state())
    if spec["what"] == "relabel":
        run_relabel(spec, res)
    elif spec["what"] == "kernel":
        run_kernel(spec, res)
    elif spec["what"] == "entry":
        run_entry(spec, res)
    else:
        run_e2e(spec, res)


def replay(case, res):
    if case["what"] == "relabel":
        run_relabel(dict(seed=case["rng"][:-1], n=case["rng"][-1] + 1, mode="interp"), res)
        return
    if case["what"] == "kernel":
        run_kernel(dict(seed=case["rng"][:-1], n=case["rng"][-1] + 1), res)
        return
    if case["what"] == "entry":
        from fast_ticc import admm
        check_entry(res, admm, case)
    else:
        check_e2e(res, case)


def finalize(merged, tier):
    out = {"inconclusive": []}
    q = tier == "quick"
    c = merged["counters"]
    if c.get("classes_compared", 0) < (40 if q else 500):
        out["inconclusive"].append("only %d equivalence classes had >=2 completed forms" % c.get("classes_compared", 0))
    if c.get("kernel_tables_compared", 0) < (500 if q else 5000):
        out["inconclusive"].append("kernel-level scalar/vector comparison ran only %d times" % c.get("kernel_tables_compared", 0))
    if c.get("relabel_classes_compared", 0) < (250 if q else 2500):
        out["inconclusive"].append("relabelling-function form comparison ran only %d times" % c.get("relabel_classes_compared", 0))
    for w in ("lam", "beta", "eps"):
        if c.get("e2e_class:" + w, 0) < 2:
            out["inconclusive"].append("end-to-end class %s exercised %d times" % (w, c.get("e2e_class:" + w, 0)))
    return out
