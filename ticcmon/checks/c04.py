"""C04 - one label per input row, unlabelled margin exactly W-1, K MRFs of size NW (both front ends)."""
import numpy as np

from ticcmon import e2e_check
from ticcmon.checks import e2e_common as ec

LEVEL = "exploration"
RULE = ("traced runs of both front ends: W 1..6 (odd and even), N 1..4, K 2..6, lengths from minimal upward, 1..6 unequal series incl. one "
        "of exactly W rows, list/tuple/generator inputs; non-trivial = completed run with W>=2 (a margin exists); distinct by case hash")
ASSUMPTIONS = ["only completed runs decide; refused runs are counted by exception class"]
SHARD_TIMEOUT = {"quick": 300, "thorough": 3400}
MIX = {"single:small": 3, "single:general": 2, "joint:joint": 4, "joint:general": 1}
PROPS = ("C04",)


def plan(tier, seed):
    specs = ec.plan_e2e(seed, 4, MIX, 150 if tier == "quick" else 2000, nwcap=12 if tier == "quick" else 24)
    if tier == "thorough":
        specs += ec.fixture_specs()
    for p in range(2 if tier == "quick" else 6):
        specs.append(dict(name="wide-%d" % p, mode="interp", what="wide", n=5 if tier == "quick" else 12, seed=[seed, 44, p]))
    return specs


def nontrivial(run, I):
    return "m" if run.W >= 2 else None


def wide_cases(spec):
    """More sensors than rows (T < N): nothing in the statement forbids it, and a "helpful" transposition would go unnoticed
    on ordinary tall data."""
    rng = np.random.default_rng(spec["seed"])
    for i in range(spec["n"]):
        W = int(rng.integers(1, 3))
        N = int(rng.integers(7, 13))
        T = N - int(rng.integers(1, 4))
        if T - W + 1 < 4:
            T = W + 3
        yield dict(front="single" if i % 3 else "joint",
                   data=dict(gen="regime", seed=int(rng.integers(0, 2 ** 31)), T=T if i % 3 else [T, T + 1], N=N, n_reg=2, seg=4, scale=1.0, flavor="plain"),
                   W=W, K=2, beta=dict(form="float", value=1.0), lam=dict(form="float", value=0.5), m=1, limit=2, biased=True, eps=0.0,
                   nproc=1, mp=False, rng_seed=int(rng.integers(0, 2 ** 31)), init=dict(kind="alternating"), container="list")


def run_shard(spec, res):
    if spec.get("what") == "wide":
        e2e_check.run_cases(res, wide_cases(spec), PROPS, lambda run, I: "w", coverage_props=())
        res.count("wide_data_runs", spec["n"])
        return
    ec.run_e2e_shard(spec, res, PROPS, nontrivial)


def replay(case, res):
    e2e_check.replay_case(res, case, PROPS)
    for rec in res.counters.get("unexpected_exception_cases", []):
        res.violation("a front end raised %s on a valid input instead of returning one label per row" % rec["tag"], case)


def finalize(merged, tier):
    out = {"inconclusive": [], "violations": []}
    # "for every input series ... the front end returns": an input inside the quantifier that makes a front end raise anything other
    # than the library's legitimate refusals (mixture model refuses the data, empty cluster at round 0, non-finite covariance, donor
    # shortage) did not get its T labels
    for rec in merged["counters"].get("unexpected_exception_cases", [])[:5]:
        out["violations"].append({"msg": "a front end raised %s on a valid input instead of returning one label per row" % rec["tag"], "case": rec["case"]})
    ec.min_counter(merged, out, "results_checked", 100 if tier == "quick" else 1000)
    ec.min_counter(merged, out, "wide_data_runs", 8 if tier == "quick" else 60)
    ec.unexpected(merged, out)
    return out
