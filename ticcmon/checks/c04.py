"""C04 - one label per input row, unlabelled margin exactly W-1, K MRFs of size NW (both front ends)."""
from ticcmon import e2e_check
from ticcmon.checks import e2e_common as ec

LEVEL = "exploration"
RULE = ("traced runs of both front ends: W 1..6 (odd and even), N 1..4, K 2..6, lengths from minimal upward, 1..6 unequal series incl. one "
        "of exactly W rows, list/tuple/generator inputs; non-trivial = completed run with W>=2 (a margin exists); distinct by case hash")
ASSUMPTIONS = ["only completed runs decide; refused runs are counted by exception class"]
SHARD_TIMEOUT = {"quick": 900, "thorough": 3400}
MIX = {"single:small": 3, "single:general": 2, "joint:joint": 4, "joint:general": 1}
PROPS = ("C04",)


def plan(tier, seed):
    specs = ec.plan_e2e(seed, 4, MIX, 200 if tier == "quick" else 2000, nwcap=12 if tier == "quick" else 24)
    if tier == "thorough":
        specs += ec.fixture_specs()
    return specs


def nontrivial(run, I):
    return "m" if run.W >= 2 else None


def run_shard(spec, res):
    ec.run_e2e_shard(spec, res, PROPS, nontrivial)


def replay(case, res):
    e2e_check.replay_case(res, case, PROPS)


def finalize(merged, tier):
    out = {"inconclusive": []}
    ec.min_counter(merged, out, "results_checked", 100 if tier == "quick" else 1000)
    ec.unexpected(merged, out)
    return out
