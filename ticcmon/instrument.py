"""Wrappers installed from the harness on fast_ticc's module attributes (no source hooks).

Everything here observes at function boundaries of the *real* code imported from the
repository working tree.
"""
import inspect
import io
import contextlib
import os
import sys
import re
import threading

import numpy as np

COUNTERS = {}


def count(name, n=1):
    COUNTERS[name] = COUNTERS.get(name, 0) + n


# --------------------------------------------------------------------------- snapshots

def _cp(a):
    if a is None:
        return None
    arr = np.asarray(a)
    if arr.dtype == object:
        return None if arr.ndim == 0 and arr[()] is None else np.array(arr, copy=True)
    return np.array(arr, copy=True)


ARRAY_FIELDS = ("stacked_data_mean", "empirical_covariance", "train_inverse",
                "computed_covariance", "inverse_covariance")


def snap_args(a):
    if a is None:
        return None
    out = {}
    for f in ("sparsity_weight", "iteration_limit", "label_switching_cost", "min_cluster_size",
              "min_meaningful_covariance", "num_clusters", "num_processors", "window_size",
              "biased_covariance"):
        v = getattr(a, f, None)
        out[f] = _cp(v) if isinstance(v, np.ndarray) else v
    return out


def snap_model(m):
    """Deep snapshot of a ModelState (labels, membership, fitted statistics, cost, arguments)."""
    labels = m.point_labels
    return dict(
        labels=None if labels is None else list(labels),
        members=[list(c.member_points) for c in m.clusters],
        arrays=[{f: _cp(getattr(c, f, None)) for f in ARRAY_FIELDS} for c in m.clusters],
        logdet=[getattr(c, "log_determinant", None) for c in m.clusters],
        cost=m.label_assignment_cost,
        nclusters=len(m.clusters),
        args=snap_args(m.arguments),
    )


def _arr_equal(a, b):
    if a is None or b is None:
        return a is None and b is None
    a = np.asarray(a)
    b = np.asarray(b)
    if a.shape != b.shape:
        return False
    if a.dtype == object or b.dtype == object:
        return bool(np.all(a == b))
    return bool(np.array_equal(a, b, equal_nan=True))


def diff_snap(a, b, fields=("labels", "members", "stacked_data_mean", "empirical_covariance",
                             "train_inverse", "computed_covariance")):
    """Names of the parts of two snapshots that differ (restricted to `fields`)."""
    out = []
    if "labels" in fields:
        la, lb = a["labels"], b["labels"]
        if (la is None) != (lb is None) or (la is not None and [int(x) for x in la] != [int(x) for x in lb]):
            out.append("labels")
    if "members" in fields and a["members"] != b["members"]:
        out.append("members")
    if a["nclusters"] != b["nclusters"]:
        out.append("nclusters")
        return out
    for f in ARRAY_FIELDS:
        if f in fields:
            for k, (ca, cb) in enumerate(zip(a["arrays"], b["arrays"])):
                if not _arr_equal(ca[f], cb[f]):
                    out.append("%s[%d]" % (f, k))
    if "args" in fields:
        for k in a["args"]:
            va, vb = a["args"][k], b["args"][k]
            if isinstance(va, np.ndarray) or isinstance(vb, np.ndarray):
                if not _arr_equal(va, vb):
                    out.append("args." + k)
            elif va != vb or type(va) is not type(vb):
                out.append("args." + k)
    return out


def partition_issues(m):
    """Invariant of C13 on one state object: K clusters; members_k == sorted{i: label_i == k}."""
    issues = []
    K = m.arguments.num_clusters if m.arguments is not None else len(m.clusters)
    if len(m.clusters) != K:
        issues.append("state has %d clusters, K=%d" % (len(m.clusters), K))
        return issues
    labels = m.point_labels
    if labels is None or len(labels) == 0:
        for k, c in enumerate(m.clusters):
            if len(c.member_points) != 0:
                issues.append("unlabelled state but cluster %d has members" % k)
        return issues
    exp = [[] for _ in range(K)]
    for i, l in enumerate(labels):
        if not (0 <= l < K):
            issues.append("label %r at %d outside [0,%d)" % (l, i, K))
            return issues
        exp[int(l)].append(i)
    for k, c in enumerate(m.clusters):
        if list(c.member_points) != exp[k]:
            issues.append("cluster %d members %s... != points labelled %d %s..." % (
                k, list(c.member_points)[:6], k, exp[k][:6]))
    return issues


# --------------------------------------------------------------------------- ADMM exit record

ADMM_LAST = {}


def admm_exit_record():
    """What the check_convergence wrapper saw since ADMM_LAST was last cleared."""
    rec = {"ncalls": ADMM_LAST.get("n", 0), "stopped": bool(ADMM_LAST.get("flag", False)),
           "rho": ADMM_LAST.get("rho"), "abstol": ADMM_LAST.get("abstol"), "reltol": ADMM_LAST.get("reltol"),
           "max_iterations": ADMM_LAST.get("max_iterations")}
    rec["iterations"] = rec["ncalls"] + 1 if rec["ncalls"] else None
    return rec


def install_admm_monitor(keep_state=False):
    from fast_ticc.admm import solver
    if getattr(solver.check_convergence, "_ticcmon", False):
        return
    orig = solver.check_convergence

    def check_convergence(args, u, x, z, z_old):
        r = orig(args, u, x, z, z_old)
        ADMM_LAST["n"] = ADMM_LAST.get("n", 0) + 1
        try:
            ADMM_LAST["flag"] = bool(r[0])
        except Exception:
            ADMM_LAST["flag"] = bool(r)
        ADMM_LAST["rho"] = float(args.rho)
        ADMM_LAST["abstol"] = float(args.absolute_tolerance)
        ADMM_LAST["reltol"] = float(args.relative_tolerance)
        ADMM_LAST["max_iterations"] = int(args.max_iterations)
        if keep_state:
            ADMM_LAST["state"] = (np.array(u, copy=True), np.array(x, copy=True), np.array(z, copy=True),
                                  np.array(z_old, copy=True))
        return r
    check_convergence._ticcmon = True
    check_convergence._orig = orig
    solver.check_convergence = check_convergence


# --------------------------------------------------------------------------- what the optimiser entry point receives (worker side)

ENTRY_LAST = []


def _receipt(arguments):
    out = {}
    for k_, v in arguments.items():
        if k_ in ("empirical_covariance", "sparsity_weight"):
            out[k_] = np.array(v, copy=True) if isinstance(v, np.ndarray) else v
        elif k_ in ("window_size", "num_data_series"):
            out[k_] = v
    return out


def install_entry_monitor():
    """Wraps the public optimiser entry point IN THIS PROCESS and records what each call receives.  Only ever installed inside pool
    workers (from inject.task_shim): in the parent it would change the object the library submits to its pool."""
    import functools
    import inspect
    from fast_ticc.admm import front_end as fe
    cur = fe.admm_optimize_theta
    if getattr(cur, "_ticcmon_entry", False):
        return cur
    orig = cur
    sig = inspect.signature(orig)

    @functools.wraps(orig)
    def admm_optimize_theta(*a, **k):
        try:
            b = sig.bind(*a, **k)
            b.apply_defaults()
            ENTRY_LAST.append(_receipt(b.arguments))
        except TypeError:
            ENTRY_LAST.append({"unbound": True})
        return orig(*a, **k)
    admm_optimize_theta._ticcmon_entry = True
    admm_optimize_theta._orig = orig
    for name, mod in list(sys.modules.items()):
        if name.startswith("fast_ticc") and mod is not None and getattr(mod, "admm_optimize_theta", None) is orig:
            setattr(mod, "admm_optimize_theta", admm_optimize_theta)
    return admm_optimize_theta


# --------------------------------------------------------------------------- run recorder

class Recorder:
    def __init__(self):
        self.reset()

    def reset(self):
        self.phases = []        # dicts: phase, round, inp(snapshot), inp_after, out(snapshot), same_obj, inp_obj, out_obj
        self.label_steps = []   # dicts: table, beta, labels, cost
        self.final = []         # (model object, snapshot) seen by the metric functions
        self.tasks = []         # dicts: func, args, kwds
        self.completions = []   # task indices in completion order
        self.task_results = {}  # idx -> result object / exception
        self.fork_events = 0
        self.live = []          # (state object, snapshot, where) for the alias monitor
        self.alias_issues = []
        self.data = None
        self.ch_data = None
        self.init_labels = None
        self.phase_exc = None


REC = Recorder()
PLAN = {"task": {}, "phase": {}, "init_labels": None, "label_script": None, "label_script_then": None, "round_budget": None, "gmm_max_iter": None}


class RoundBudgetExceeded(Exception):
    """Raised by the harness when the library starts a round far beyond iteration_limit (logical bound, not a clock)."""
_INSTALLED = {}
_LOCK = threading.Lock()


def _alias_recheck(where):
    """C13 (ii): nothing the monitor has seen at an earlier boundary may have changed."""
    for obj, snap, seen_at in REC.live:
        now = snap_model(obj)
        d = diff_snap(snap, now)
        if d:
            REC.alias_issues.append("state seen at %s changed by the time of %s: %s" % (seen_at, where, d[:4]))
        pi = partition_issues(obj)
        if pi:
            REC.alias_issues.append("state seen at %s violates the partition invariant at %s: %s" % (seen_at, where, pi[:2]))


def _wrap_phase(mod, name, phase):
    orig = getattr(mod, name)
    if getattr(orig, "_ticcmon", False):
        return

    def wrapper(model, *a, **k):
        rnd = sum(1 for p in REC.phases if p["phase"] == "label")
        if PLAN.get("round_budget") is not None and rnd >= PLAN["round_budget"] + 2:
            raise RoundBudgetExceeded("phase %s of round %d started although iteration_limit is %d" % (phase, rnd + 1, PLAN["round_budget"]))
        fault = PLAN["phase"].get((phase, rnd))
        before = snap_model(model)
        if fault is not None and fault.get("when", "before") == "before":
            from ticcmon import inject
            raise inject.make_exc(*fault["raise_"])
        try:
            out = orig(model, *a, **k)
        except BaseException as e:
            REC.phase_exc = dict(phase=phase, round=rnd, inp=before, exc=e)
            raise
        count("phase_calls")
        ev = dict(phase=phase, round=rnd, inp=before, inp_after=snap_model(model),
                  out=snap_model(out), same_obj=out is model, inp_obj=model, out_obj=out)
        where = "%s/round%d" % (phase, rnd)
        # the input is compared by the per-phase oracle (iii); everything seen earlier by (ii)
        REC.live = [t for t in REC.live if t[0] is not model]
        _alias_recheck(where)
        REC.live.append((model, ev["inp_after"], where + ":in"))
        if out is not model:
            REC.live.append((out, ev["out"], where + ":out"))
        if len(REC.live) > 24:      # bound the quadratic cost on long runs; the oldest states are dropped
            del REC.live[:len(REC.live) - 24]
            count("alias_monitor_states_dropped")
        REC.phases.append(ev)
        if fault is not None and fault.get("when") == "after":
            from ticcmon import inject
            raise inject.make_exc(*fault["raise_"])
        return out
    wrapper._ticcmon = True
    wrapper._orig = orig
    wrapper.__name__ = name
    setattr(mod, name, wrapper)


def _bind_label_args(args, kwargs):
    names = ("label_assignment_cost", "label_switching_cost")
    vals = dict(zip(names, args))
    vals.update(kwargs)
    return vals.get("label_assignment_cost"), vals.get("label_switching_cost")


def install_label_monitor():
    from fast_ticc import cluster_label_assignment as cla
    orig = cla.assign_point_cluster_labels
    if getattr(orig, "_ticcmon", False):
        return

    def assign_point_cluster_labels(*args, **kwargs):
        table, beta = _bind_label_args(args, kwargs)
        t_before = np.array(table, copy=True)
        b_before = np.array(beta, copy=True) if isinstance(beta, np.ndarray) else beta
        r = orig(*args, **kwargs)
        script = PLAN.get("label_script")
        forced = False
        if script is not None:
            # forced history: the labelling of this round is scripted by the harness (the rest of the loop is the real code);
            # with label_script_then == "natural" the run continues with its own labellings once the script is used up
            k_ = sum(1 for p_ in REC.phases if p_["phase"] == "label")
            if k_ < len(script) or PLAN.get("label_script_then") != "natural":
                r = (list(script[min(k_, len(script) - 1)]), float(r[1]))
                forced = True
        count("label_calls")
        REC.label_steps.append(dict(round=sum(1 for p_ in REC.phases if p_["phase"] == "label"), scripted=forced,
                                    table=t_before, beta=b_before, beta_is_array=isinstance(beta, np.ndarray),
                                    labels=list(r[0]), cost=r[1],
                                    table_unchanged=_arr_equal(t_before, table),
                                    beta_unchanged=(not isinstance(beta, np.ndarray)) or _arr_equal(b_before, beta)))
        return r
    assign_point_cluster_labels._ticcmon = True
    assign_point_cluster_labels._orig = orig
    cla.assign_point_cluster_labels = assign_point_cluster_labels


def install_final_capture():
    from fast_ticc import cluster_metrics as cmx
    if getattr(cmx.bayesian_information_criterion, "_ticcmon", False):
        return
    bic0 = cmx.bayesian_information_criterion
    ch0 = cmx.calinski_harabasz_index

    def bayesian_information_criterion(model, *a, **k):
        REC.final.append((model, snap_model(model)))
        count("final_capture")
        return bic0(model, *a, **k)

    def calinski_harabasz_index(stacked_training_data, model, *a, **k):
        REC.ch_data = stacked_training_data
        REC.final.append((model, snap_model(model)))
        return ch0(stacked_training_data, model, *a, **k)
    bayesian_information_criterion._ticcmon = True
    bayesian_information_criterion._orig = bic0
    calinski_harabasz_index._ticcmon = True
    calinski_harabasz_index._orig = ch0
    cmx.bayesian_information_criterion = bayesian_information_criterion
    cmx.calinski_harabasz_index = calinski_harabasz_index


def install_init_labels_hook():
    """Scripted initial labelling (forced histories); PLAN['init_labels'] = callable(K, data) or None."""
    from fast_ticc import cluster_label_assignment as cla
    orig = cla.build_initial_clusters
    if getattr(orig, "_ticcmon", False):
        return

    def build_initial_clusters(num_clusters, training_data, *a, **k):
        f = PLAN["init_labels"]
        if f is not None:
            labels = f(num_clusters, training_data)
        else:
            labels = orig(num_clusters, training_data, *a, **k)
        REC.init_labels = list(labels)
        REC.data = training_data
        return labels
    build_initial_clusters._ticcmon = True
    build_initial_clusters._orig = orig
    cla.build_initial_clusters = build_initial_clusters


def install_pool_shim():
    import multiprocessing.pool as mpp
    from ticcmon import inject
    if getattr(mpp.Pool.apply_async, "_ticcmon", False):
        return
    orig = mpp.Pool.apply_async

    def apply_async(self, func, args=(), kwds={}, callback=None, error_callback=None):
        with _LOCK:
            idx = len(REC.tasks)
            REC.tasks.append(dict(func=func, args=args, kwds=dict(kwds)))
        spec = PLAN["task"].get(idx)

        def cb(res):
            with _LOCK:
                REC.completions.append(idx)
                REC.task_results[idx] = res
            if callback is not None:
                callback(res)

        def ecb(exc):
            with _LOCK:
                REC.completions.append(idx)
                REC.task_results[idx] = exc
            if error_callback is not None:
                error_callback(exc)
        count("tasks_submitted")
        return orig(self, inject.task_shim, (spec, func, tuple(args), dict(kwds)), {}, cb, ecb)
    apply_async._ticcmon = True
    apply_async._orig = orig
    mpp.Pool.apply_async = apply_async


def install_gmm_stress():
    """Stress injection for the seeding mixture model: with PLAN["gmm_max_iter"] = n every fit of scikit-learn's GaussianMixture in
    this process stops after at most n EM steps (the mixture 'runs out of steps', as it does by itself on rare large inputs)."""
    import sklearn.mixture as skm
    if getattr(skm.GaussianMixture.fit, "_ticcmon", False):
        return
    orig = skm.GaussianMixture.fit

    def fit(self, X, y=None):
        n = PLAN.get("gmm_max_iter")
        if n and not getattr(self, "_ticcmon_capped", False):
            self.max_iter = int(n)             # the first fit of this mixture object only
            self._ticcmon_capped = True
        r = orig(self, X, y)
        count("mixture_fits")
        if not getattr(self, "converged_", True):
            count("mixture_fits_not_converged")
        return r
    fit._ticcmon = True
    fit._orig = orig
    skm.GaussianMixture.fit = fit


def install_fork_audit():
    if _INSTALLED.get("audit"):
        return
    _INSTALLED["audit"] = True

    def hook(event, args):
        if event == "os.fork":
            REC.fork_events += 1
    sys.addaudithook(hook)


def install_all():
    from fast_ticc import cluster_maintenance as cm, graphical_lasso as gl, cluster_label_assignment as cla
    install_admm_monitor()
    _wrap_phase(cm, "repopulate_empty_clusters", "repop")
    _wrap_phase(cm, "update_all_cluster_statistics", "stats")
    _wrap_phase(gl, "optimize_markov_random_fields", "opt")
    _wrap_phase(cla, "predict_cluster_labels", "label")
    install_label_monitor()
    install_final_capture()
    install_init_labels_hook()
    install_pool_shim()
    install_fork_audit()
    install_gmm_stress()


def reset_run():
    REC.reset()
    PLAN["task"] = {}
    PLAN["phase"] = {}
    PLAN["init_labels"] = None
    PLAN["label_script"] = None
    PLAN["label_script_then"] = None
    PLAN["round_budget"] = None


@contextlib.contextmanager
def quiet():
    """The library prints its arguments on every run."""
    with contextlib.redirect_stdout(io.StringIO()):
        yield


# --------------------------------------------------------------------------- line coverage (evidence only)

class LineCoverage:
    """sys.monitoring LINE events restricted to the repository sources; each line fires once."""

    def __init__(self, root):
        self.root = os.path.realpath(root)
        self.hit = set()
        self.tool = None

    def start(self):
        mon = getattr(sys, "monitoring", None)
        if mon is None:
            return
        for tid in (3, 4, 2):
            try:
                mon.use_tool_id(tid, "ticcmon")
                self.tool = tid
                break
            except ValueError:
                continue
        if self.tool is None:
            return

        def on_line(code, line):
            fn = code.co_filename
            if fn.startswith(self.root):
                self.hit.add((fn[len(self.root):].lstrip("/"), line))
            return mon.DISABLE
        mon.register_callback(self.tool, mon.events.LINE, on_line)
        mon.set_events(self.tool, mon.events.LINE)

    def stop(self):
        mon = getattr(sys, "monitoring", None)
        if mon is None or self.tool is None:
            return
        mon.set_events(self.tool, 0)
        mon.register_callback(self.tool, mon.events.LINE, None)
        mon.free_tool_id(self.tool)
        self.tool = None

    def anchors(self, anchor_list):
        """anchor_list: [(relative file, regex)] -> dict name -> 'hit' | 'not_executed' | 'unresolved'."""
        out = {}
        for rel, pattern in anchor_list:
            path = os.path.join(self.root, rel)
            name = "%s:/%s/" % (rel, pattern)
            try:
                lines = open(path).read().split("\n")
            except OSError:
                out[name] = "unresolved"
                continue
            nums = [i + 1 for i, l in enumerate(lines) if re.search(pattern, l)]
            if not nums:
                out[name] = "unresolved"
            elif any((rel, n) in self.hit for n in nums):
                out[name] = "hit"
            else:
                out[name] = "not_executed"
        return out
